package rewrite

import (
	"go/parser"
	"go/token"
	"os"
	"path/filepath"
	"strings"
	"testing"
)

const sample = `package demo

import (
	"fmt"
	"os"
	"sync"
)

type T struct {
	mu sync.Mutex
	f  *os.File
}

func (t *T) Run(name string, n int) error {
	f, err := os.OpenFile(name, os.O_RDWR|os.O_CREATE, 0o666)
	if err != nil {
		return err
	}
	t.f = f
	var wg sync.WaitGroup
	for i := 0; i < n; i++ {
		wg.Add(1)
		go t.work(i, "x")
		go func() {
			defer wg.Done()
			fmt.Println(os.Getpid())
		}()
	}
	os := 3 // shadows the package: must not be rewritten below
	_ = os
	return nil
}

func (t *T) work(i int, s string) {}
`

func TestOverlayRewritesSelectorsAndGoStatements(t *testing.T) {
	dir := t.TempDir()
	src := filepath.Join(dir, "demo.go")
	os.WriteFile(src, []byte(sample), 0o644)
	out := t.TempDir()
	root, _ := filepath.Abs("../..")
	_, st, err := Overlay([]PkgSpec{{Dir: dir, Subst: map[string]string{"os": "verif/sim/os", "sync": "verif/sim/sync"}, GoStmts: true}}, root, out)
	if err != nil {
		t.Fatal(err)
	}
	files, _ := filepath.Glob(filepath.Join(out, "*.go"))
	if len(files) != 1 {
		t.Fatalf("want one rewritten file, got %v", files)
	}
	data, _ := os.ReadFile(files[0])
	text := string(data)
	if _, err := parser.ParseFile(token.NewFileSet(), "x.go", data, 0); err != nil {
		t.Fatalf("rewritten file does not parse: %v\n%s", err, text)
	}
	for _, want := range []string{"vsim_simos.OpenFile(", "*vsim_simos.File", "vsim_simsync.Mutex", "vsim_simsync.WaitGroup", "vsim_rt.Spawn()", "vsim_rt.Exit(", "os.O_RDWR", "os.Getpid()"} {
		if !strings.Contains(text, want) {
			t.Errorf("rewritten file lacks %q:\n%s", want, text)
		}
	}
	if strings.Contains(text, "vsim_simos := 3") {
		t.Error("a local variable named like the package was rewritten")
	}
	if st.GoStmts != 2 || st.Rewritten["os.OpenFile"] != 1 || st.Kept["os.Getpid"] != 1 {
		t.Errorf("stats %+v", st)
	}
	if strings.Count(text, "\n") != strings.Count(sample, "\n") {
		t.Error("line numbers shifted")
	}
}
