// Package rewrite produces, from the current working tree of the repository
// under test, copies of package files in which selected standard-library
// selectors point at simulation shims and go statements register the new
// goroutine with the scheduler. The copies are handed to the compiler through
// `go build -overlay`; the repository itself is never written to.
package rewrite

import (
	"encoding/json"
	"fmt"
	"go/ast"
	"go/build"
	"go/parser"
	"go/token"
	"os"
	"path"
	"path/filepath"
	"sort"
	"strconv"
	"strings"
)

// PkgSpec says how one package directory is rewritten.
type PkgSpec struct {
	Dir     string            // absolute directory of the package
	Subst   map[string]string // std import path -> shim import path
	GoStmts bool              // rewrite go statements
}

// Stats reports what the rewriter did, so that harnesses can fail closed.
type Stats struct {
	Files     int
	Rewritten map[string]int // "os.OpenFile" -> count
	Kept      map[string]int // selectors of substituted packages the shim does not export
	GoStmts   int
}

type edit struct {
	start, end int
	text       string
}

// shimExports parses a shim package directory and returns its exported
// top-level identifiers.
func shimExports(dir string) (map[string]bool, string, error) {
	fset := token.NewFileSet()
	pkgs, err := parser.ParseDir(fset, dir, func(fi os.FileInfo) bool { return !strings.HasSuffix(fi.Name(), "_test.go") }, 0)
	if err != nil {
		return nil, "", err
	}
	out := map[string]bool{}
	name := ""
	for pn, p := range pkgs {
		name = pn
		for _, f := range p.Files {
			for _, d := range f.Decls {
				switch d := d.(type) {
				case *ast.FuncDecl:
					if d.Recv == nil && d.Name.IsExported() {
						out[d.Name.Name] = true
					}
				case *ast.GenDecl:
					for _, sp := range d.Specs {
						switch sp := sp.(type) {
						case *ast.TypeSpec:
							if sp.Name.IsExported() {
								out[sp.Name.Name] = true
							}
						case *ast.ValueSpec:
							for _, n := range sp.Names {
								if n.IsExported() {
									out[n.Name] = true
								}
							}
						}
					}
				}
			}
		}
	}
	if name == "" {
		return nil, "", fmt.Errorf("no package in %s", dir)
	}
	return out, name, nil
}

// Overlay rewrites the packages in specs into outDir and writes
// outDir/overlay.json. modRoot maps the shim import path prefix "verif/" to
// the harness module root on disk.
func Overlay(specs []PkgSpec, modRoot, outDir string) (string, *Stats, error) {
	st := &Stats{Rewritten: map[string]int{}, Kept: map[string]int{}}
	type shim struct {
		exports map[string]bool
		name    string
	}
	shims := map[string]*shim{}
	replace := map[string]string{}
	n := 0
	for _, sp := range specs {
		for _, shimPath := range sp.Subst {
			if shims[shimPath] != nil {
				continue
			}
			if !strings.HasPrefix(shimPath, "verif/") {
				return "", nil, fmt.Errorf("shim path %q outside module", shimPath)
			}
			ex, name, err := shimExports(filepath.Join(modRoot, strings.TrimPrefix(shimPath, "verif/")))
			if err != nil {
				return "", nil, err
			}
			shims[shimPath] = &shim{ex, name}
		}
		bp, err := build.Default.ImportDir(sp.Dir, 0)
		if err != nil {
			return "", nil, fmt.Errorf("%s: %v", sp.Dir, err)
		}
		for _, fn := range bp.GoFiles {
			src := filepath.Join(sp.Dir, fn)
			data, err := os.ReadFile(src)
			if err != nil {
				return "", nil, err
			}
			fset := token.NewFileSet()
			f, err := parser.ParseFile(fset, src, data, parser.ParseComments)
			if err != nil {
				return "", nil, fmt.Errorf("parse %s: %v", src, err)
			}
			tf := fset.File(f.Pos())
			off := func(p token.Pos) int { return tf.Offset(p) }
			var edits []edit
			needImport := map[string]string{} // shim path -> local name

			// local name -> std path for substituted imports
			local := map[string]string{}
			specOf := map[string]*ast.ImportSpec{}
			for _, im := range f.Imports {
				p, _ := strconv.Unquote(im.Path.Value)
				if _, ok := sp.Subst[p]; !ok {
					continue
				}
				ln := path.Base(p)
				if im.Name != nil {
					ln = im.Name.Name
				}
				if ln == "_" || ln == "." {
					continue
				}
				local[ln] = p
				specOf[ln] = im
			}
			kept := map[string]int{}
			goN := 0
			ast.Inspect(f, func(nd ast.Node) bool {
				switch x := nd.(type) {
				case *ast.SelectorExpr:
					id, ok := x.X.(*ast.Ident)
					if !ok || id.Obj != nil {
						return true
					}
					std, ok := local[id.Name]
					if !ok {
						return true
					}
					sh := shims[sp.Subst[std]]
					key := path.Base(std) + "." + x.Sel.Name
					if sh.exports[x.Sel.Name] {
						ln := "vsim_" + sh.name
						needImport[sp.Subst[std]] = ln
						edits = append(edits, edit{off(id.Pos()), off(id.End()), ln})
						st.Rewritten[key]++
					} else {
						kept[id.Name]++
						st.Kept[key]++
					}
				case *ast.GoStmt:
					if !sp.GoStmts {
						return true
					}
					goN++
					st.GoStmts++
					needImport["verif/sim/rt"] = "vsim_rt"
					tag := fmt.Sprintf("vsim_%d", off(x.Pos()))
					call := x.Call
					edits = append(edits, edit{off(x.Go), off(x.Go) + 2, "{ " + tag + "_id := vsim_rt.Spawn(); " + tag + "_f := "})
					var names []string
					closeFrom := off(call.Lparen)
					for i, a := range call.Args {
						inline := false
						switch v := a.(type) {
						case *ast.BasicLit:
							inline = true
						case *ast.Ident:
							inline = v.Name == "nil" || v.Name == "true" || v.Name == "false"
						}
						from := off(call.Lparen)
						if i > 0 {
							from = off(call.Args[i-1].End())
						}
						if inline {
							// keep the literal in the call; blank it out here
							names = append(names, string(data[off(a.Pos()):off(a.End())]))
							edits = append(edits, edit{from, off(a.End()), ""})
						} else {
							nm := fmt.Sprintf("%s_a%d", tag, i)
							names = append(names, nm)
							edits = append(edits, edit{from, off(a.Pos()), "; " + nm + " := "})
						}
						closeFrom = off(a.End())
					}
					if len(call.Args) == 0 {
						closeFrom = off(call.Lparen)
					}
					args := strings.Join(names, ", ")
					if call.Ellipsis.IsValid() {
						args += "..."
					}
					tail := "; go func() { defer vsim_rt.Exit(" + tag + "_id); vsim_rt.Start(" + tag + "_id); " + tag + "_f(" + args + ") }() }"
					edits = append(edits, edit{closeFrom, off(call.Rparen) + 1, tail})
				}
				return true
			})
			if len(edits) == 0 {
				continue
			}
			// imports: blank the ones no longer used, add the shim imports.
			used := map[string]bool{}
			for ln := range kept {
				used[ln] = true
			}
			for ln, im := range specOf {
				if used[ln] {
					continue
				}
				if im.Name != nil {
					edits = append(edits, edit{off(im.Name.Pos()), off(im.Name.End()), "_"})
				} else {
					edits = append(edits, edit{off(im.Path.Pos()), off(im.Path.Pos()), "_ "})
				}
			}
			var imps []string
			for p, ln := range needImport {
				imps = append(imps, fmt.Sprintf("import %s %q", ln, p))
			}
			sort.Strings(imps)
			// insert right after the package clause line (keeps line numbers of the rest
			// off by zero: everything goes on the package clause's own line)
			pkgEnd := off(f.Name.End())
			edits = append(edits, edit{pkgEnd, pkgEnd, "; " + strings.Join(imps, "; ")})

			sort.SliceStable(edits, func(i, j int) bool { return edits[i].start < edits[j].start })
			var out []byte
			pos := 0
			for _, e := range edits {
				if e.start < pos {
					return "", nil, fmt.Errorf("%s: overlapping edits at offset %d", src, e.start)
				}
				out = append(out, data[pos:e.start]...)
				out = append(out, e.text...)
				pos = e.end
			}
			out = append(out, data[pos:]...)
			n++
			dst := filepath.Join(outDir, fmt.Sprintf("f%03d_%s", n, fn))
			if err := os.WriteFile(dst, out, 0o644); err != nil {
				return "", nil, err
			}
			replace[src] = dst
			st.Files++
		}
	}
	ov, _ := json.MarshalIndent(map[string]any{"Replace": replace}, "", " ")
	ovPath := filepath.Join(outDir, "overlay.json")
	if err := os.WriteFile(ovPath, ov, 0o644); err != nil {
		return "", nil, err
	}
	return ovPath, st, nil
}
