// Package simrt is the deterministic scheduler of the simulation.
//
// Code under test runs on real goroutines ("tasks"), but a task only proceeds
// from one interception point (a "seam": a shimmed os/sync/atomic/syscall
// operation, a task start, an explicit Yield in a harness callback) to the next
// when the scheduler releases it. Which parked task is released is decided by
// the Sched value of the plan and nothing else, so a run is a pure function of
// its plan.
//
// A run executes inside one testing/synctest bubble: synctest.Wait tells the
// scheduler that every goroutine is durably blocked (parked at a seam or
// blocked natively on a channel/timer), and the bubble's fake clock advances
// only when the scheduler itself blocks because nothing is eligible.
package simrt

import (
	"fmt"
	"hash/fnv"
	"runtime"
	"sort"
	"strings"
	"sync"
	"sync/atomic"
	"testing"
	"testing/synctest"
	"time"
)

// Sched is the plain-data description of a schedule.
type Sched struct {
	Policy  string `json:"policy"`            // "pct", "random", "sticky"
	Seed    uint64 `json:"seed"`              // feeds the scheduler's private PRNG
	Stick   int    `json:"stick,omitempty"`   // sticky: percent chance to continue the current task
	Changes []int  `json:"changes,omitempty"` // pct: decision numbers at which the running task is demoted
	Points  []int  `json:"points,omitempty"`  // preempt: the running task is preempted at its n-th interesting seam (counted over the run)
}

// Options configure one run.
type Options struct {
	Sched     Sched
	MaxSteps  int           // decisions before the run is abandoned (StepCap)
	Strict    bool          // code under test never blocks natively: an empty eligible set is a deadlock
	IdleCap   time.Duration // non-strict: fake time without any eligible task before declaring deadlock
	KeepTrace bool
}

// Event is one scheduler decision.
type Event struct {
	N    int    `json:"n"`
	Task int    `json:"task"`
	Site string `json:"site"`
}

// Report is what a run leaves behind.
type Report struct {
	Steps     int
	Switches  int // decisions that changed the running task
	Tasks     int
	TraceHash uint64
	Trace     []Event
	Deadlock  bool
	Blocked   []string // on deadlock / cap: "task 3 (proc 1) at Mutex.Lock"
	StepCap   bool
	Panics    []string // panics that escaped a task (other than the abort sentinel)
	Halts     int      // tasks ended by a Benign panic (simulated process halt)
	SimTime   time.Duration
	BubbleErr string // synctest's own complaint (leaked blocked goroutines), if any
}

type abortSentinel struct{}

// Benign is implemented by panic values that end a task on purpose (a simulated
// process halting); they are counted, not reported as panics.
type Benign interface{ BenignPanic() }

// Task is one schedulable goroutine.
type Task struct {
	ID     int
	Proc   int
	Name   string
	wake   chan struct{}
	parked bool
	site   string
	ready  func() bool
	prio   uint64
	goid   uint64
	bound  bool
	dead   bool
	Local  map[string]any // task-local storage for shims/harnesses
}

// Sim is one simulation run.
type Sim struct {
	opts    Options
	mu      sync.Mutex
	tasks   []*Task
	byGoid  map[uint64]*Task
	live    int
	notify  chan struct{}
	rng     splitmix
	steps   int
	last    *Task
	lowPrio uint64
	aborted atomic.Bool
	rep     Report
	hash    uint64
	start   time.Time
	changes map[int]bool
	points  map[int]bool
	icount  int
	// OnStep, if set, is called by the scheduler after each decision was made
	// and before the task is released (all tasks are blocked at that moment).
	OnStep func(n int, t *Task)
}

var cur atomic.Pointer[Sim]

// Cur returns the active simulation, or nil.
func Cur() *Sim { return cur.Load() }

type splitmix struct{ s uint64 }

func (r *splitmix) next() uint64 {
	r.s += 0x9e3779b97f4a7c15
	z := r.s
	z = (z ^ (z >> 30)) * 0xbf58476d1ce4e5b9
	z = (z ^ (z >> 27)) * 0x94d049bb133111eb
	return z ^ (z >> 31)
}

func mix(a, b uint64) uint64 {
	r := splitmix{a ^ (b * 0x9e3779b97f4a7c15)}
	return r.next()
}

func goid() uint64 {
	var buf [40]byte
	n := runtime.Stack(buf[:], false)
	// "goroutine 123 ["
	var id uint64
	for i := len("goroutine "); i < n; i++ {
		c := buf[i]
		if c < '0' || c > '9' {
			break
		}
		id = id*10 + uint64(c-'0')
	}
	return id
}

// Run executes root as task 0 of a new simulation inside a synctest bubble and
// returns once every task has ended (or the run was abandoned).
func Run(t *testing.T, opts Options, root func(s *Sim)) (rep *Report) {
	if opts.MaxSteps == 0 {
		opts.MaxSteps = 20000
	}
	if opts.IdleCap == 0 {
		opts.IdleCap = 24 * time.Hour
	}
	s := &Sim{
		opts:    opts,
		byGoid:  map[uint64]*Task{},
		rng:     splitmix{opts.Sched.Seed},
		lowPrio: 1 << 20,
		hash:    14695981039346656037,
		changes: map[int]bool{},
	}
	for _, c := range opts.Sched.Changes {
		s.changes[c] = true
	}
	s.points = map[int]bool{}
	for _, c := range opts.Sched.Points {
		s.points[c] = true
	}
	if !cur.CompareAndSwap(nil, s) {
		panic("simrt: nested or concurrent simulations")
	}
	defer cur.Store(nil)
	defer func() {
		// synctest panics in this goroutine when blocked goroutines remain after
		// the bubble's root function returned (only possible after an abort).
		if r := recover(); r != nil {
			s.rep.BubbleErr = fmt.Sprint(r)
			rep = &s.rep
		}
	}()
	synctest.Test(t, func(t *testing.T) {
		// created inside the bubble: blocking on a channel made outside it is not
		// durable, and the fake clock would never advance while the scheduler idles
		s.notify = make(chan struct{}, 1)
		s.start = time.Now()
		s.Go("root", 0, func() { root(s) })
		s.loop()
		s.rep.SimTime = time.Since(s.start)
	})
	return &s.rep
}

// Go starts f as a new task belonging to simulated process proc.
func (s *Sim) Go(name string, proc int, f func()) *Task {
	t := s.newTask(name, proc)
	go func() {
		s.bind(t)
		defer s.exit(t)
		s.park(t, "start", nil)
		f()
	}()
	return t
}

func (s *Sim) newTask(name string, proc int) *Task {
	s.mu.Lock()
	defer s.mu.Unlock()
	t := &Task{ID: len(s.tasks), Proc: proc, Name: name, wake: make(chan struct{})}
	t.prio = mix(s.opts.Sched.Seed, uint64(t.ID)+1)%(1<<40) + (1 << 21)
	s.tasks = append(s.tasks, t)
	s.live++
	return t
}

func (s *Sim) bind(t *Task) {
	g := goid()
	s.mu.Lock()
	t.goid = g
	t.bound = true
	s.byGoid[g] = t
	s.mu.Unlock()
}

// exit is deferred at the top of every task goroutine.
func (s *Sim) exit(t *Task) {
	r := recover()
	s.mu.Lock()
	if r != nil {
		if _, ok := r.(Benign); ok {
			s.rep.Halts++
		} else if _, ok := r.(abortSentinel); !ok {
			buf := make([]byte, 4096)
			buf = buf[:runtime.Stack(buf, false)]
			s.rep.Panics = append(s.rep.Panics, fmt.Sprintf("task %d (%s): %v\n%s", t.ID, t.Name, r, buf))
		}
	}
	t.dead = true
	delete(s.byGoid, t.goid)
	s.live--
	s.mu.Unlock()
	s.poke()
}

// Poke tells the scheduler that something it cannot see changed (a fake-clock
// timer of a stub fired), so that wake conditions are re-evaluated.
func (s *Sim) Poke() { s.poke() }

func (s *Sim) poke() {
	select {
	case s.notify <- struct{}{}:
	default:
	}
}

// TaskOf returns the task bound to the calling goroutine, or nil.
func (s *Sim) TaskOf() *Task {
	g := goid()
	s.mu.Lock()
	t := s.byGoid[g]
	s.mu.Unlock()
	return t
}

// Current returns the active simulation and the calling goroutine's task; both
// nil when the caller is not a simulated task (shims then pass through).
func Current() (*Sim, *Task) {
	s := cur.Load()
	if s == nil {
		return nil, nil
	}
	t := s.TaskOf()
	if t == nil {
		return nil, nil
	}
	return s, t
}

func (s *Sim) park(t *Task, site string, ready func() bool) {
	if s.aborted.Load() {
		panic(abortSentinel{})
	}
	s.mu.Lock()
	t.parked = true
	t.site = site
	t.ready = ready
	s.mu.Unlock()
	s.poke()
	<-t.wake
	if s.aborted.Load() {
		panic(abortSentinel{})
	}
}

// Yield parks the calling task at site until the scheduler releases it.
// Outside a simulation (or from a goroutine that is not a task) it returns at once.
func Yield(site string) {
	if s, t := Current(); t != nil {
		s.park(t, site, nil)
	}
}

// Block parks the calling task until ready() holds and the scheduler picks it.
// ready is evaluated by the scheduler while every task is stopped.
func Block(site string, ready func() bool) {
	if s, t := Current(); t != nil {
		s.park(t, site, ready)
	}
}

// Choose returns a seeded value in [0,n) for choices a shim has to make during
// a run (which Cond waiter to wake, where to tear a write).
func (s *Sim) Choose(n int) int {
	if n <= 1 {
		return 0
	}
	s.mu.Lock()
	defer s.mu.Unlock()
	return int(s.rng.next() % uint64(n))
}

// Steps returns the number of decisions taken so far (the global event counter
// used to stamp histories).
func (s *Sim) Steps() int {
	s.mu.Lock()
	defer s.mu.Unlock()
	return s.steps
}

// Aborted reports whether the run was abandoned (deadlock or step cap).
func (s *Sim) Aborted() bool { return s.aborted.Load() }

// Spawn is called by the parent at a rewritten go statement.
func Spawn() int {
	s, t := Current()
	if t == nil {
		return -1
	}
	c := s.newTask(fmt.Sprintf("go@%d", t.ID), t.Proc)
	return c.ID
}

// SpawnForeign registers a task for a goroutine that the runtime starts on its own (a timer
// callback): the caller is not a task, the new goroutine calls Start and defers Exit as usual.
func SpawnForeign(name string, proc int) int {
	s := cur.Load()
	if s == nil || s.aborted.Load() {
		return -1
	}
	return s.newTask(name, proc).ID
}

// Start is the first call of a goroutine started by a rewritten go statement.
func Start(id int) {
	if id < 0 {
		return
	}
	s := cur.Load()
	if s == nil {
		return
	}
	s.mu.Lock()
	t := s.tasks[id]
	s.mu.Unlock()
	s.bind(t)
	defer func() {
		// If the run was already abandoned the goroutine must still unwind through Exit.
	}()
	s.park(t, "start", nil)
}

// Exit is deferred by a goroutine started by a rewritten go statement.
func Exit(id int) {
	if id < 0 {
		return
	}
	s := cur.Load()
	if s == nil {
		return
	}
	r := recover()
	s.mu.Lock()
	t := s.tasks[id]
	s.mu.Unlock()
	func() {
		defer s.exit(t)
		if r != nil {
			panic(r)
		}
	}()
}

func (s *Sim) abort(why string) {
	// called with s.mu held
	for _, t := range s.tasks {
		if !t.dead {
			st := "running/blocked natively"
			if t.parked {
				st = "at " + t.site
			}
			s.rep.Blocked = append(s.rep.Blocked, fmt.Sprintf("task %d %s (proc %d) %s", t.ID, t.Name, t.Proc, st))
		}
	}
	s.aborted.Store(true)
}

func (s *Sim) loop() {
	idleSince := time.Time{}
	for {
		synctest.Wait()
		s.mu.Lock()
		if s.live == 0 {
			s.mu.Unlock()
			break
		}
		if s.aborted.Load() {
			// release every parked task so that it unwinds
			var ws []*Task
			for _, t := range s.tasks {
				if t.parked && !t.dead {
					t.parked = false
					ws = append(ws, t)
				}
			}
			s.mu.Unlock()
			if len(ws) == 0 {
				// only natively blocked goroutines remain; nothing more can be done
				break
			}
			for _, t := range ws {
				t.wake <- struct{}{}
			}
			continue
		}
		var cands []*Task
		for _, t := range s.tasks {
			if t.parked && !t.dead && (t.ready == nil || t.ready()) {
				cands = append(cands, t)
			}
		}
		if len(cands) == 0 {
			// Nothing can run. In strict mode that is a deadlock - unless a timer set by the code under
			// test is still pending, so even there the fake clock is first allowed to run on for an hour
			// (it jumps: this costs nothing when no timer exists).
			if s.opts.Strict && s.opts.IdleCap == 0 {
				s.opts.IdleCap = time.Hour
			}
			if idleSince.IsZero() {
				idleSince = time.Now()
			} else if time.Since(idleSince) >= s.opts.IdleCap {
				s.rep.Deadlock = true
				s.abort("idle")
				s.mu.Unlock()
				continue
			}
			s.mu.Unlock()
			// Block durably: the bubble's clock may now jump to the next timer.
			tm := time.NewTimer(s.opts.IdleCap - time.Since(idleSince))
			select {
			case <-s.notify:
			case <-tm.C:
			}
			tm.Stop()
			continue
		}
		idleSince = time.Time{}
		if s.steps >= s.opts.MaxSteps {
			s.rep.StepCap = true
			s.abort("stepcap")
			s.mu.Unlock()
			continue
		}
		t := s.pick(cands)
		s.steps++
		s.rep.Steps = s.steps
		if s.last != t {
			s.rep.Switches++
		}
		s.last = t
		s.hashEvent(t.ID, t.site)
		if s.opts.KeepTrace {
			s.rep.Trace = append(s.rep.Trace, Event{s.steps, t.ID, t.site})
		}
		t.parked = false
		t.ready = nil
		cb := s.OnStep
		n := s.steps
		s.mu.Unlock()
		if cb != nil {
			cb(n, t)
		}
		// drain a stale notification so that the next idle wait really waits
		select {
		case <-s.notify:
		default:
		}
		t.wake <- struct{}{}
	}
	s.mu.Lock()
	s.rep.Tasks = len(s.tasks)
	s.rep.TraceHash = s.hash
	s.mu.Unlock()
}

func (s *Sim) hashEvent(id int, site string) {
	h := s.hash
	h ^= uint64(id) + 1
	h *= 1099511628211
	for i := 0; i < len(site); i++ {
		h ^= uint64(site[i])
		h *= 1099511628211
	}
	h ^= 0xff
	h *= 1099511628211
	s.hash = h
}

func (s *Sim) pick(cands []*Task) *Task {
	// cands is ordered by task id
	switch s.opts.Sched.Policy {
	case "sticky":
		if s.last != nil {
			for _, t := range cands {
				if t == s.last {
					if int(s.rng.next()%100) < s.opts.Sched.Stick {
						return t
					}
					break
				}
			}
		}
		return cands[s.rng.next()%uint64(len(cands))]
	case "preempt":
		// Non-preemptive (the running task continues while it can) except at the
		// chosen interesting seams of the running task, where another task takes over.
		var cur *Task
		for _, t := range cands {
			if t == s.last {
				cur = t
			}
		}
		if cur != nil {
			preempt := false
			if Interesting(cur.site) {
				if s.points[s.icount] {
					preempt = true
				}
				s.icount++
			}
			if !preempt || len(cands) == 1 {
				return cur
			}
			var others []*Task
			for _, t := range cands {
				if t != cur {
					others = append(others, t)
				}
			}
			return others[s.rng.next()%uint64(len(others))]
		}
		return cands[s.rng.next()%uint64(len(cands))]
	case "pct":
		if s.changes[s.steps] && s.last != nil {
			s.lowPrio--
			s.last.prio = s.lowPrio
		}
		best := cands[0]
		for _, t := range cands[1:] {
			if t.prio > best.prio {
				best = t
			}
		}
		return best
	default: // random
		return cands[s.rng.next()%uint64(len(cands))]
	}
}

// Interesting reports whether a seam is one where preemption is likely to
// matter: everything except reads, stats and task starts (those are still
// interleaved freely by the random, sticky and pct policies).
func Interesting(site string) bool {
	for _, p := range []string{"read", "stat", "fstat", "start", "readdir", "chtimes", "f.", "join"} {
		if strings.HasPrefix(site, p) {
			return false
		}
	}
	return true
}

// HashStrings is a helper for harnesses that need a stable 64-bit digest.
func HashStrings(parts ...string) uint64 {
	h := fnv.New64a()
	for _, p := range parts {
		h.Write([]byte(p))
		h.Write([]byte{0})
	}
	return h.Sum64()
}

// DescribeBlocked renders the blocked list.
func (r *Report) DescribeBlocked() string {
	b := append([]string(nil), r.Blocked...)
	sort.Strings(b)
	return strings.Join(b, "; ")
}
