package simrt

import (
	"fmt"
	"testing"
	"time"
)

func workload(s *Sim, log *[]string) {
	left := 3
	for i := 0; i < 3; i++ {
		i := i
		s.Go(fmt.Sprintf("w%d", i), i, func() {
			defer func() { left-- }()
			for k := 0; k < 4; k++ {
				Yield("step")
				*log = append(*log, fmt.Sprintf("%d.%d", i, k))
			}
		})
	}
	Block("join", func() bool { return left == 0 })
}

func trace(t *testing.T, sc Sched) (string, uint64) {
	var log []string
	rep := Run(t, Options{Sched: sc, Strict: true}, func(s *Sim) { workload(s, &log) })
	if rep.Deadlock || rep.StepCap || len(rep.Panics) > 0 {
		t.Fatalf("unexpected report %+v", rep)
	}
	return fmt.Sprint(log), rep.TraceHash
}

func TestSameScheduleSameRun(t *testing.T) {
	for _, pol := range []string{"random", "sticky", "pct", "preempt"} {
		sc := Sched{Policy: pol, Seed: 42, Stick: 80, Changes: []int{3, 9}, Points: []int{1, 4}}
		a, ha := trace(t, sc)
		b, hb := trace(t, sc)
		if a != b || ha != hb {
			t.Fatalf("%s: same schedule, different runs:\n%s\n%s", pol, a, b)
		}
	}
}

func TestSeedsExploreDifferentInterleavings(t *testing.T) {
	seen := map[string]bool{}
	for seed := uint64(0); seed < 40; seed++ {
		a, _ := trace(t, Sched{Policy: "random", Seed: seed})
		seen[a] = true
	}
	if len(seen) < 20 {
		t.Fatalf("only %d distinct interleavings from 40 seeds", len(seen))
	}
}

func TestStrictDeadlockIsReported(t *testing.T) {
	rep := Run(t, Options{Sched: Sched{Policy: "random", Seed: 1}, Strict: true}, func(s *Sim) {
		Block("never", func() bool { return false })
	})
	if !rep.Deadlock || len(rep.Blocked) == 0 {
		t.Fatalf("deadlock not reported: %+v", rep)
	}
}

func TestStepCap(t *testing.T) {
	rep := Run(t, Options{Sched: Sched{Policy: "random", Seed: 1}, Strict: true, MaxSteps: 50}, func(s *Sim) {
		for {
			Yield("spin")
		}
	})
	if !rep.StepCap {
		t.Fatalf("step cap not reported: %+v", rep)
	}
}

func TestFakeClockAdvancesWhenNothingIsEligible(t *testing.T) {
	var woke time.Duration
	rep := Run(t, Options{Sched: Sched{Policy: "random", Seed: 1}, IdleCap: time.Hour}, func(s *Sim) {
		start := time.Now()
		done := make(chan struct{})
		time.AfterFunc(90*time.Second, func() { close(done); s.Poke() })
		<-done // native block: only the fake clock can end it
		woke = time.Since(start)
		Yield("after")
	})
	if rep.Deadlock || woke != 90*time.Second {
		t.Fatalf("woke after %v, report %+v", woke, rep)
	}
}

func TestIdleCapReportsHang(t *testing.T) {
	rep := Run(t, Options{Sched: Sched{Policy: "random", Seed: 1}, IdleCap: time.Minute}, func(s *Sim) {
		Block("never", func() bool { return false })
	})
	if !rep.Deadlock {
		t.Fatalf("hang not reported: %+v", rep)
	}
}

type benign struct{}

func (benign) BenignPanic() {}

func TestPanicsAreRecordedAndBenignOnesCounted(t *testing.T) {
	rep := Run(t, Options{Sched: Sched{Policy: "random", Seed: 1}, Strict: true}, func(s *Sim) {
		left := 2
		s.Go("bad", 1, func() { defer func() { left-- }(); panic("boom") })
		s.Go("halted", 2, func() { defer func() { left-- }(); panic(benign{}) })
		Block("join", func() bool { return left == 0 })
	})
	if len(rep.Panics) != 1 || rep.Halts != 1 {
		t.Fatalf("panics %d halts %d", len(rep.Panics), rep.Halts)
	}
}
