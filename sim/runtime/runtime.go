// Package simruntime replaces runtime.SetFinalizer in rewritten code under test
// with a no-op: lockedfile arms a finalizer that panics when a File becomes
// unreachable without Close, which is exactly what happens - legitimately - to
// the descriptors of a simulated process that halts (a killed process runs no
// finalizers either). Leaks of live processes are detected by the harnesses
// themselves (descriptor counts, deadlock detection).
package simruntime

// Calls counts SetFinalizer calls.
var Calls int64

func SetFinalizer(obj any, finalizer any) { Calls++ }
