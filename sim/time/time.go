// Package simtime replaces time.Now/Since/Until in rewritten code under test:
// the synctest bubble's fake clock plus an offset the harness controls, which
// is how runs get clock jumps (forwards and backwards) that the bubble's
// monotonic clock cannot produce.
package simtime

import (
	"time"

	simrt "verif/sim/rt"
)

var offset time.Duration

// Reads counts calls of Now (fail-closed seam counter).
var Reads int64

func Now() time.Time                  { Reads++; return time.Now().Add(offset) }
func Since(t time.Time) time.Duration { return Now().Sub(t) }
func Until(t time.Time) time.Duration { return t.Sub(Now()) }

// Advance moves the simulated wall clock (negative values jump backwards).
func Advance(d time.Duration) { offset += d }

// Reset puts the clock back to the bubble's fake clock.
func Reset() { offset = 0; Reads = 0 }

// Offset returns the current offset.
func Offset() time.Duration { return offset }

// AfterFunc is time.AfterFunc whose callback runs as a task of the simulation (its own
// goroutine, as with the real one), so that whatever it does to simulated mutexes, condition
// variables and files goes through the scheduler like everybody else's operations.
func AfterFunc(d time.Duration, f func()) *time.Timer {
	if simrt.Cur() == nil {
		return time.AfterFunc(d, f)
	}
	proc := 0
	if _, t := simrt.Current(); t != nil {
		proc = t.Proc
	}
	return time.AfterFunc(d, func() {
		id := simrt.SpawnForeign("timer", proc)
		if id < 0 {
			f()
			return
		}
		go func() {
			defer simrt.Exit(id)
			simrt.Start(id)
			f()
		}()
	})
}
