// Package simatomic replaces sync/atomic in rewritten code under test: a yield
// before each operation, the real operation, and a yield after it. The second
// yield lets other tasks run between an atomic operation and the plain memory
// accesses that follow it in program order (a flag published before the data it
// guards is otherwise invisible, because plain accesses are not seams).
package simatomic

import (
	"sync/atomic"

	simrt "verif/sim/rt"
)

var Ops int64

func y(op string) { Ops++; simrt.Yield("atomic." + op) }
func z(op string) { simrt.Yield("atomic." + op + ".done") }

func LoadUint32(p *uint32) uint32 {
	y("LoadUint32")
	v := atomic.LoadUint32(p)
	z("LoadUint32")
	return v
}
func StoreUint32(p *uint32, v uint32) {
	y("StoreUint32")
	atomic.StoreUint32(p, v)
	z("StoreUint32")
}
func AddUint32(p *uint32, d uint32) uint32 {
	y("AddUint32")
	v := atomic.AddUint32(p, d)
	z("AddUint32")
	return v
}
func LoadInt32(p *int32) int32 { y("LoadInt32"); v := atomic.LoadInt32(p); z("LoadInt32"); return v }
func StoreInt32(p *int32, v int32) {
	y("StoreInt32")
	atomic.StoreInt32(p, v)
	z("StoreInt32")
}
func AddInt32(p *int32, d int32) int32 {
	y("AddInt32")
	v := atomic.AddInt32(p, d)
	z("AddInt32")
	return v
}
func LoadInt64(p *int64) int64 { y("LoadInt64"); v := atomic.LoadInt64(p); z("LoadInt64"); return v }
func StoreInt64(p *int64, v int64) {
	y("StoreInt64")
	atomic.StoreInt64(p, v)
	z("StoreInt64")
}
func AddInt64(p *int64, d int64) int64 {
	y("AddInt64")
	v := atomic.AddInt64(p, d)
	z("AddInt64")
	return v
}
func CompareAndSwapUint32(p *uint32, o, n uint32) bool {
	y("CompareAndSwapUint32")
	v := atomic.CompareAndSwapUint32(p, o, n)
	z("CompareAndSwapUint32")
	return v
}
func CompareAndSwapInt32(p *int32, o, n int32) bool {
	y("CompareAndSwapInt32")
	v := atomic.CompareAndSwapInt32(p, o, n)
	z("CompareAndSwapInt32")
	return v
}

// ---- typed atomics: the same yields around the real operations ----

type Pointer[T any] struct{ v atomic.Pointer[T] }

func (p *Pointer[T]) Load() *T { y("Pointer.Load"); r := p.v.Load(); z("Pointer.Load"); return r }
func (p *Pointer[T]) Store(x *T) {
	y("Pointer.Store")
	p.v.Store(x)
	z("Pointer.Store")
}
func (p *Pointer[T]) Swap(x *T) *T { y("Pointer.Swap"); r := p.v.Swap(x); z("Pointer.Swap"); return r }
func (p *Pointer[T]) CompareAndSwap(o, n *T) bool {
	y("Pointer.CompareAndSwap")
	r := p.v.CompareAndSwap(o, n)
	z("Pointer.CompareAndSwap")
	return r
}

type Value struct{ v atomic.Value }

func (p *Value) Load() any { y("Value.Load"); r := p.v.Load(); z("Value.Load"); return r }
func (p *Value) Store(x any) {
	y("Value.Store")
	p.v.Store(x)
	z("Value.Store")
}
func (p *Value) Swap(x any) any { y("Value.Swap"); r := p.v.Swap(x); z("Value.Swap"); return r }
func (p *Value) CompareAndSwap(o, n any) bool {
	y("Value.CompareAndSwap")
	r := p.v.CompareAndSwap(o, n)
	z("Value.CompareAndSwap")
	return r
}

type Bool struct{ v atomic.Bool }

func (p *Bool) Load() bool { y("Bool.Load"); r := p.v.Load(); z("Bool.Load"); return r }
func (p *Bool) Store(x bool) {
	y("Bool.Store")
	p.v.Store(x)
	z("Bool.Store")
}
func (p *Bool) Swap(x bool) bool { y("Bool.Swap"); r := p.v.Swap(x); z("Bool.Swap"); return r }
func (p *Bool) CompareAndSwap(o, n bool) bool {
	y("Bool.CompareAndSwap")
	r := p.v.CompareAndSwap(o, n)
	z("Bool.CompareAndSwap")
	return r
}

type Int32 struct{ v atomic.Int32 }

func (p *Int32) Load() int32 { y("Int32.Load"); r := p.v.Load(); z("Int32.Load"); return r }
func (p *Int32) Store(x int32) {
	y("Int32.Store")
	p.v.Store(x)
	z("Int32.Store")
}
func (p *Int32) Add(d int32) int32  { y("Int32.Add"); r := p.v.Add(d); z("Int32.Add"); return r }
func (p *Int32) Swap(x int32) int32 { y("Int32.Swap"); r := p.v.Swap(x); z("Int32.Swap"); return r }
func (p *Int32) CompareAndSwap(o, n int32) bool {
	y("Int32.CompareAndSwap")
	r := p.v.CompareAndSwap(o, n)
	z("Int32.CompareAndSwap")
	return r
}

type Int64 struct{ v atomic.Int64 }

func (p *Int64) Load() int64 { y("Int64.Load"); r := p.v.Load(); z("Int64.Load"); return r }
func (p *Int64) Store(x int64) {
	y("Int64.Store")
	p.v.Store(x)
	z("Int64.Store")
}
func (p *Int64) Add(d int64) int64  { y("Int64.Add"); r := p.v.Add(d); z("Int64.Add"); return r }
func (p *Int64) Swap(x int64) int64 { y("Int64.Swap"); r := p.v.Swap(x); z("Int64.Swap"); return r }
func (p *Int64) CompareAndSwap(o, n int64) bool {
	y("Int64.CompareAndSwap")
	r := p.v.CompareAndSwap(o, n)
	z("Int64.CompareAndSwap")
	return r
}

type Uint32 struct{ v atomic.Uint32 }

func (p *Uint32) Load() uint32 { y("Uint32.Load"); r := p.v.Load(); z("Uint32.Load"); return r }
func (p *Uint32) Store(x uint32) {
	y("Uint32.Store")
	p.v.Store(x)
	z("Uint32.Store")
}
func (p *Uint32) Add(d uint32) uint32 { y("Uint32.Add"); r := p.v.Add(d); z("Uint32.Add"); return r }
func (p *Uint32) Swap(x uint32) uint32 {
	y("Uint32.Swap")
	r := p.v.Swap(x)
	z("Uint32.Swap")
	return r
}
func (p *Uint32) CompareAndSwap(o, n uint32) bool {
	y("Uint32.CompareAndSwap")
	r := p.v.CompareAndSwap(o, n)
	z("Uint32.CompareAndSwap")
	return r
}

type Uint64 struct{ v atomic.Uint64 }

func (p *Uint64) Load() uint64 { y("Uint64.Load"); r := p.v.Load(); z("Uint64.Load"); return r }
func (p *Uint64) Store(x uint64) {
	y("Uint64.Store")
	p.v.Store(x)
	z("Uint64.Store")
}
func (p *Uint64) Add(d uint64) uint64 { y("Uint64.Add"); r := p.v.Add(d); z("Uint64.Add"); return r }
func (p *Uint64) Swap(x uint64) uint64 {
	y("Uint64.Swap")
	r := p.v.Swap(x)
	z("Uint64.Swap")
	return r
}
func (p *Uint64) CompareAndSwap(o, n uint64) bool {
	y("Uint64.CompareAndSwap")
	r := p.v.CompareAndSwap(o, n)
	z("Uint64.CompareAndSwap")
	return r
}
