// Package simatomic replaces sync/atomic in rewritten code under test: a yield
// before each operation, the real operation, and a yield after it. The second
// yield lets other tasks run between an atomic operation and the plain memory
// accesses that follow it in program order (a flag published before the data it
// guards is otherwise invisible, because plain accesses are not seams).
package simatomic

import (
	"sync/atomic"

	simrt "verif/sim/rt"
)

var Ops int64

func y(op string) { Ops++; simrt.Yield("atomic." + op) }
func z(op string) { simrt.Yield("atomic." + op + ".done") }

func LoadUint32(p *uint32) uint32 {
	y("LoadUint32")
	v := atomic.LoadUint32(p)
	z("LoadUint32")
	return v
}
func StoreUint32(p *uint32, v uint32) {
	y("StoreUint32")
	atomic.StoreUint32(p, v)
	z("StoreUint32")
}
func AddUint32(p *uint32, d uint32) uint32 {
	y("AddUint32")
	v := atomic.AddUint32(p, d)
	z("AddUint32")
	return v
}
func LoadInt32(p *int32) int32 { y("LoadInt32"); v := atomic.LoadInt32(p); z("LoadInt32"); return v }
func StoreInt32(p *int32, v int32) {
	y("StoreInt32")
	atomic.StoreInt32(p, v)
	z("StoreInt32")
}
func AddInt32(p *int32, d int32) int32 {
	y("AddInt32")
	v := atomic.AddInt32(p, d)
	z("AddInt32")
	return v
}
func LoadInt64(p *int64) int64 { y("LoadInt64"); v := atomic.LoadInt64(p); z("LoadInt64"); return v }
func StoreInt64(p *int64, v int64) {
	y("StoreInt64")
	atomic.StoreInt64(p, v)
	z("StoreInt64")
}
func AddInt64(p *int64, d int64) int64 {
	y("AddInt64")
	v := atomic.AddInt64(p, d)
	z("AddInt64")
	return v
}
func CompareAndSwapUint32(p *uint32, o, n uint32) bool {
	y("CompareAndSwapUint32")
	v := atomic.CompareAndSwapUint32(p, o, n)
	z("CompareAndSwapUint32")
	return v
}
func CompareAndSwapInt32(p *int32, o, n int32) bool {
	y("CompareAndSwapInt32")
	v := atomic.CompareAndSwapInt32(p, o, n)
	z("CompareAndSwapInt32")
	return v
}
