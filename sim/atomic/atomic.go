// Package simatomic replaces sync/atomic in rewritten code under test: a yield
// before each operation, then the real operation.
package simatomic

import (
	"sync/atomic"

	simrt "verif/sim/rt"
)

var Ops int64

func y(op string) { Ops++; simrt.Yield("atomic." + op) }

func LoadUint32(p *uint32) uint32          { y("LoadUint32"); return atomic.LoadUint32(p) }
func StoreUint32(p *uint32, v uint32)      { y("StoreUint32"); atomic.StoreUint32(p, v) }
func AddUint32(p *uint32, d uint32) uint32 { y("AddUint32"); return atomic.AddUint32(p, d) }
func LoadInt32(p *int32) int32             { y("LoadInt32"); return atomic.LoadInt32(p) }
func StoreInt32(p *int32, v int32)         { y("StoreInt32"); atomic.StoreInt32(p, v) }
func AddInt32(p *int32, d int32) int32     { y("AddInt32"); return atomic.AddInt32(p, d) }
func LoadInt64(p *int64) int64             { y("LoadInt64"); return atomic.LoadInt64(p) }
func StoreInt64(p *int64, v int64)         { y("StoreInt64"); atomic.StoreInt64(p, v) }
func AddInt64(p *int64, d int64) int64     { y("AddInt64"); return atomic.AddInt64(p, d) }
func CompareAndSwapUint32(p *uint32, o, n uint32) bool {
	y("CompareAndSwapUint32")
	return atomic.CompareAndSwapUint32(p, o, n)
}
func CompareAndSwapInt32(p *int32, o, n int32) bool {
	y("CompareAndSwapInt32")
	return atomic.CompareAndSwapInt32(p, o, n)
}
