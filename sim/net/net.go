// Package simnet replaces net.Listen and http.Server in rewritten code under
// test: the listener is a name in a registry, Serve registers the handler under
// that name and parks until Close, and clients (harness tasks) fetch the
// handler and call it directly. The TCP/HTTP stack is thus a stub with
// reliable, in-order delivery, which is what loopback HTTP provides.
package simnet

import (
	"errors"
	"fmt"
	"net"
	"net/http"
	"sync"

	simrt "verif/sim/rt"
)

var (
	mu       sync.Mutex
	nextPort = 40000
	handlers = map[string]http.Handler{}
	// Listens counts Listen calls (fail-closed seam counter).
	Listens int64
)

// Reset forgets all listeners.
func Reset() {
	mu.Lock()
	nextPort = 40000
	handlers = map[string]http.Handler{}
	mu.Unlock()
}

type addr string

func (a addr) Network() string { return "tcp" }
func (a addr) String() string  { return string(a) }

type listener struct {
	a      addr
	closed chan struct{}
	once   sync.Once
}

func (l *listener) Accept() (net.Conn, error) {
	<-l.closed
	return nil, net.ErrClosed
}
func (l *listener) Close() error   { l.once.Do(func() { close(l.closed) }); return nil }
func (l *listener) Addr() net.Addr { return l.a }

// Listen returns a fake listener with a deterministic address.
func Listen(network, address string) (net.Listener, error) {
	mu.Lock()
	defer mu.Unlock()
	Listens++
	nextPort++
	return &listener{a: addr(fmt.Sprintf("127.0.0.1:%d", nextPort)), closed: make(chan struct{})}, nil
}

// Server mirrors the fields of http.Server that the code under test sets.
type Server struct {
	Addr    string
	Handler http.Handler
	closed  bool
	addr    string
}

// Serve registers the handler and parks the calling task until Close.
func (s *Server) Serve(l net.Listener) error {
	mu.Lock()
	s.addr = l.Addr().String()
	handlers[s.addr] = s.Handler
	mu.Unlock()
	if _, t := simrt.Current(); t != nil {
		simrt.Block("http.Serve", func() bool { return s.closed })
	} else {
		return errors.New("simnet: Serve outside a simulation")
	}
	return http.ErrServerClosed
}

func (s *Server) Close() error {
	mu.Lock()
	s.closed = true
	delete(handlers, s.addr)
	mu.Unlock()
	return nil
}

// Lookup returns the handler serving the host:port, or nil.
func Lookup(hostport string) http.Handler {
	mu.Lock()
	defer mu.Unlock()
	return handlers[hostport]
}
