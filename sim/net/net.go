// Package simnet replaces net.Listen and http.Server in rewritten code under
// test: the listener is a name in a registry, Serve registers the handler under
// that name and parks until Close, and clients (harness tasks) fetch the
// handler and call it directly. The TCP/HTTP stack is thus a stub with
// reliable, in-order delivery, which is what loopback HTTP provides.
package simnet

import (
	"context"
	"crypto/tls"
	"errors"
	"fmt"
	"log"
	"net"
	"net/http"
	"sync"
	"time"

	simrt "verif/sim/rt"
)

var (
	mu       sync.Mutex
	nextPort = 40000
	handlers = map[string]http.Handler{}
	servers  = map[string]*Server{}
	// Listens counts Listen calls (fail-closed seam counter).
	Listens int64
)

// Reset forgets all listeners.
func Reset() {
	mu.Lock()
	nextPort = 40000
	handlers = map[string]http.Handler{}
	servers = map[string]*Server{}
	mu.Unlock()
}

type addr string

func (a addr) Network() string { return "tcp" }
func (a addr) String() string  { return string(a) }

type listener struct {
	a      addr
	closed chan struct{}
	once   sync.Once
}

func (l *listener) Accept() (net.Conn, error) {
	<-l.closed
	return nil, net.ErrClosed
}
func (l *listener) Close() error   { l.once.Do(func() { close(l.closed) }); return nil }
func (l *listener) Addr() net.Addr { return l.a }

// Listen returns a fake listener with a deterministic address.
func Listen(network, address string) (net.Listener, error) {
	mu.Lock()
	defer mu.Unlock()
	Listens++
	nextPort++
	return &listener{a: addr(fmt.Sprintf("127.0.0.1:%d", nextPort)), closed: make(chan struct{})}, nil
}

// Server mirrors the exported fields of http.Server, so that any configuration
// the code under test writes compiles; the timeouts are honoured by the
// harness-side client (see Timeouts).
type Server struct {
	Addr                         string
	Handler                      http.Handler
	DisableGeneralOptionsHandler bool
	TLSConfig                    *tls.Config
	ReadTimeout                  time.Duration
	ReadHeaderTimeout            time.Duration
	WriteTimeout                 time.Duration
	IdleTimeout                  time.Duration
	MaxHeaderBytes               int
	TLSNextProto                 map[string]func(*http.Server, *tls.Conn, http.Handler)
	ConnState                    func(net.Conn, http.ConnState)
	ErrorLog                     *log.Logger
	BaseContext                  func(net.Listener) context.Context
	ConnContext                  func(ctx context.Context, c net.Conn) context.Context
	HTTP2                        *http.HTTP2Config
	Protocols                    *http.Protocols
	closed                       bool
	addr                         string
}

// Timeouts reports the limits a client of this server is subject to, with
// net/http's meaning: header is the time allowed for the request headers to
// arrive (ReadHeaderTimeout, else ReadTimeout), write the time from the end of
// the request headers to the last byte of the response (WriteTimeout); zero
// means unlimited.
func (s *Server) Timeouts() (header, write time.Duration) {
	header = s.ReadHeaderTimeout
	if header == 0 {
		header = s.ReadTimeout
	}
	return header, s.WriteTimeout
}

func (s *Server) Shutdown(ctx context.Context) error { return s.Close() }
func (s *Server) RegisterOnShutdown(f func())        {}
func (s *Server) SetKeepAlivesEnabled(v bool)        {}

// Serve registers the handler and parks the calling task until Close.
func (s *Server) Serve(l net.Listener) error {
	mu.Lock()
	s.addr = l.Addr().String()
	handlers[s.addr] = s.Handler
	servers[s.addr] = s
	mu.Unlock()
	if _, t := simrt.Current(); t != nil {
		simrt.Block("http.Serve", func() bool { return s.closed })
	} else {
		return errors.New("simnet: Serve outside a simulation")
	}
	return http.ErrServerClosed
}

func (s *Server) Close() error {
	mu.Lock()
	s.closed = true
	delete(handlers, s.addr)
	delete(servers, s.addr)
	mu.Unlock()
	return nil
}

// LookupServer returns the server registered for host:port, or nil.
func LookupServer(hostport string) *Server {
	mu.Lock()
	defer mu.Unlock()
	return servers[hostport]
}

// Lookup returns the handler serving the host:port, or nil.
func Lookup(hostport string) http.Handler {
	mu.Lock()
	defer mu.Unlock()
	return handlers[hostport]
}
