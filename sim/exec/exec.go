// Package simexec replaces os/exec in rewritten code under test with a stub:
// Start creates a simulated process whose behaviour is decoded from its
// arguments (output, exit code, run time on the fake clock, reaction to SIGQUIT
// / SIGINT, files it creates), Wait parks the caller until the process has
// exited, Signal/Kill are logged with the fake instant and acted on. No real
// program is ever started: the properties that involve children are about what
// testscript does to and concludes from them, which the stub records exactly.
package simexec

import (
	"context"
	"fmt"
	"io"
	"os"
	realexec "os/exec"
	"path/filepath"
	"strconv"
	"strings"
	"sync"
	"syscall"
	"time"

	simos "verif/sim/os"
	simrt "verif/sim/rt"
)

// SignalRec is one logged signal delivery attempt.
type SignalRec struct {
	At     time.Duration `json:"at"` // fake time since the run's epoch
	Sig    string        `json:"sig"`
	Result string        `json:"result"` // delivered | done
}

// Proc is the record of one simulated process.
type Proc struct {
	Pid      int
	Path     string
	Args     []string
	Env      []string
	Dir      string
	TaskProc int // simulated OS process (script) that started it
	Started  time.Duration
	Exited   bool
	ExitAt   time.Duration
	Reaped   bool
	State    *ProcessState
	Signals  []SignalRec
	Spec     map[string]string
	// A process given hold=<dur> has left a descendant behind that inherited its output pipes
	// and lives for that long after the process itself has exited.
	DescUntil   time.Duration // fake instant at which the descendant ends (0: no descendant)
	PipesClosed bool

	mu     sync.Mutex
	stdout io.Writer
	stderr io.Writer
	exitT  *time.Timer
}

var (
	mu    sync.Mutex
	procs []*Proc
	epoch time.Time
	// Starts counts Cmd.Start calls (fail-closed seam counter).
	Starts int64
)

// Reset forgets all processes; epoch is the fake instant the run starts at.
func Reset(at time.Time) {
	mu.Lock()
	procs = nil
	epoch = at
	Starts = 0
	mu.Unlock()
}

// Procs returns every process started since Reset, in start order.
func Procs() []*Proc {
	mu.Lock()
	defer mu.Unlock()
	return append([]*Proc(nil), procs...)
}

func since() time.Duration { return time.Since(epoch) }

// ProcessState replaces os.ProcessState.
type ProcessState struct {
	code   int
	signal string
}

func (s *ProcessState) Success() bool { return s != nil && s.code == 0 && s.signal == "" }
func (s *ProcessState) ExitCode() int {
	if s.signal != "" {
		return -1
	}
	return s.code
}
func (s *ProcessState) Exited() bool { return s.signal == "" }
func (s *ProcessState) Pid() int     { return 0 }
func (s *ProcessState) String() string {
	if s == nil {
		return "<nil>"
	}
	if s.signal != "" {
		return "signal: " + s.signal
	}
	return "exit status " + strconv.Itoa(s.code)
}

// ExitError replaces exec.ExitError.
type ExitError struct {
	*ProcessState
	Stderr []byte
}

func (e *ExitError) Error() string { return e.ProcessState.String() }

// Cmd mirrors the exported fields of exec.Cmd.
type Cmd struct {
	Path         string
	Args         []string
	Env          []string
	Dir          string
	Stdin        io.Reader
	Stdout       io.Writer
	Stderr       io.Writer
	ExtraFiles   []*simos.File
	SysProcAttr  *syscall.SysProcAttr
	Process      *simos.Process
	ProcessState *ProcessState
	Err          error
	Cancel       func() error
	WaitDelay    time.Duration
	ctx          context.Context
	proc         *Proc
	waited       bool
}

// Command resolves a bare program name in the (simulated) host PATH, as exec.Command does in
// the process's own PATH; a failed look-up is reported by Start.
func Command(name string, arg ...string) *Cmd {
	c := &Cmd{Path: name, Args: append([]string{name}, arg...)}
	if !strings.ContainsRune(name, filepath.Separator) {
		if lp, err := LookPath(name); err != nil {
			c.Err = err
		} else {
			c.Path = lp
		}
	}
	return c
}

func CommandContext(ctx context.Context, name string, arg ...string) *Cmd {
	c := Command(name, arg...)
	c.ctx = ctx
	return c
}

func (c *Cmd) String() string { return strings.Join(c.Args, " ") }

func (c *Cmd) Run() error {
	if err := c.Start(); err != nil {
		return err
	}
	return c.Wait()
}

func parseDur(s string) (time.Duration, bool) {
	if s == "forever" || s == "" {
		return 0, false
	}
	d, err := time.ParseDuration(s)
	if err != nil {
		return 0, false
	}
	return d, true
}

// Start creates the simulated process.
func (c *Cmd) Start() error {
	simrt.Yield("proc.start")
	if c.Process != nil {
		return fmt.Errorf("exec: already started")
	}
	if c.Err != nil {
		return c.Err
	}
	if strings.HasPrefix(filepath.Base(c.Path), "busy") {
		// a program file that somebody still holds open for writing
		return &os.PathError{Op: "fork/exec", Path: c.Path, Err: syscall.ETXTBSY}
	}
	if fi, err := os.Stat(c.Path); err != nil || fi.IsDir() {
		return &os.PathError{Op: "fork/exec", Path: c.Path, Err: syscall.ENOENT}
	} else if fi.Mode()&0o111 == 0 {
		return &os.PathError{Op: "fork/exec", Path: c.Path, Err: syscall.EACCES}
	}
	p := &Proc{Path: c.Path, Args: c.Args, Env: c.Env, Dir: c.Dir, Started: since(), Spec: map[string]string{}, stdout: c.Stdout, stderr: c.Stderr}
	if _, t := simrt.Current(); t != nil {
		p.TaskProc = t.Proc
	}
	for _, a := range c.Args[1:] {
		if k, v, ok := strings.Cut(a, "="); ok {
			p.Spec[k] = v
		} else {
			p.Spec[a] = "true"
		}
	}
	mu.Lock()
	Starts++
	p.Pid = 1000 + len(procs)
	procs = append(procs, p)
	mu.Unlock()
	c.proc = p
	c.Process = simos.NewProcess(p.Pid, p)

	// behaviour at start
	if v, ok := p.Spec["out"]; ok && c.Stdout != nil {
		io.WriteString(c.Stdout, v+"\n")
	}
	if n, err := strconv.Atoi(p.Spec["bigout"]); err == nil && n > 0 && c.Stdout != nil {
		// a chatty program: n bytes of output in lines of 100
		line := strings.Repeat("x", 99) + "\n"
		io.WriteString(c.Stdout, strings.Repeat(line, n/100))
	}
	if v, ok := p.Spec["err"]; ok && c.Stderr != nil {
		io.WriteString(c.Stderr, v+"\n")
	}
	if p.Spec["stdin"] == "echo" && c.Stdin != nil && c.Stdout != nil {
		io.Copy(c.Stdout, c.Stdin)
	}
	if v, ok := p.Spec["env"]; ok && c.Stdout != nil {
		val := "<unset>"
		for _, kv := range c.Env {
			if strings.HasPrefix(kv, v+"=") {
				val = kv[len(v)+1:]
			}
		}
		io.WriteString(c.Stdout, v+"="+val+"\n")
	}
	if p.Spec["pwd"] == "true" && c.Stdout != nil {
		io.WriteString(c.Stdout, c.Dir+"\n")
	}
	if v, ok := p.Spec["touch"]; ok {
		os.WriteFile(filepath.Join(c.Dir, v), []byte("made by "+strings.Join(c.Args[1:], " ")+"\n"), 0o666)
	}
	if d, ok := parseDur(p.Spec["errevery"]); ok && d > 0 && c.Stderr != nil {
		// a program that keeps complaining on stderr for as long as it lives
		var tick func()
		tick = func() {
			p.mu.Lock()
			alive := !p.Exited
			p.mu.Unlock()
			if alive {
				io.WriteString(p.stderr, "still busy\n")
				time.AfterFunc(d, tick)
			}
		}
		time.AfterFunc(d, tick)
	}
	code, _ := strconv.Atoi(p.Spec["code"])
	if d, ok := parseDur(p.Spec["run"]); ok {
		p.exitAfter(d, &ProcessState{code: code})
	} else if _, given := p.Spec["run"]; !given {
		p.exitAfter(time.Millisecond, &ProcessState{code: code})
	}
	return nil
}

// exitAfter schedules (or reschedules to an earlier instant) the process exit.
func (p *Proc) exitAfter(d time.Duration, st *ProcessState) {
	p.mu.Lock()
	defer p.mu.Unlock()
	if p.Exited {
		return
	}
	at := since() + d
	if p.exitT != nil {
		if at >= p.ExitAt {
			return // an earlier exit is already scheduled
		}
		p.exitT.Stop()
	}
	p.ExitAt = at
	p.exitT = time.AfterFunc(d, func() {
		p.mu.Lock()
		if !p.Exited {
			p.Exited = true
			p.ExitAt = since()
			p.State = st
			if h, ok := parseDur(p.Spec["hold"]); ok && h > 0 {
				p.DescUntil = p.ExitAt + h
				time.AfterFunc(h, func() {
					p.mu.Lock()
					p.PipesClosed = true
					p.mu.Unlock()
					if s := simrt.Cur(); s != nil {
						s.Poke()
					}
				})
			} else {
				p.PipesClosed = true
			}
			if st.signal == "" {
				if v, ok := p.Spec["lateout"]; ok && p.stdout != nil {
					io.WriteString(p.stdout, v+"\n")
				}
			}
		}
		p.mu.Unlock()
		if s := simrt.Cur(); s != nil {
			s.Poke()
		}
	})
}

// Signal implements simos.ProcessImpl.
func (p *Proc) Signal(sig os.Signal) error {
	simrt.Yield("proc.signal")
	name := "?"
	switch sig {
	case os.Interrupt:
		name = "int"
	case os.Kill:
		name = "kill"
	case syscall.SIGQUIT:
		name = "quit"
	case syscall.SIGTERM:
		name = "term"
	default:
		name = sig.String()
	}
	p.mu.Lock()
	if p.Exited {
		p.Signals = append(p.Signals, SignalRec{since(), name, "done"})
		p.mu.Unlock()
		return os.ErrProcessDone
	}
	p.Signals = append(p.Signals, SignalRec{since(), name, "delivered"})
	react := p.Spec[name]
	p.mu.Unlock()
	if v, ok := p.Spec["onsig"]; ok && name != "kill" {
		// a signal handler that saves state under the process's directory
		os.MkdirAll(p.Dir, 0o777)
		os.WriteFile(filepath.Join(p.Dir, v), []byte("saved on "+name+"\n"), 0o666)
	}
	sigName := map[string]string{"int": "interrupt", "kill": "killed", "quit": "quit", "term": "terminated"}[name]
	switch {
	case name == "kill":
		p.exitAfter(time.Nanosecond, &ProcessState{signal: "killed"})
	case react == "ignore":
	case react == "":
		// default disposition: the signal terminates the process at once
		p.exitAfter(time.Nanosecond, &ProcessState{signal: sigName})
	default:
		// "<delay>" or "<delay>:<code>"
		ds, cs, hasCode := strings.Cut(react, ":")
		d, ok := parseDur(ds)
		if !ok {
			d = time.Nanosecond
		}
		st := &ProcessState{signal: sigName}
		if hasCode {
			c, _ := strconv.Atoi(cs)
			st = &ProcessState{code: c}
		}
		p.exitAfter(d, st)
	}
	return nil
}

// Wait parks the caller until the process has exited, then reaps it.
func (c *Cmd) Wait() error {
	if c.proc == nil {
		return fmt.Errorf("exec: not started")
	}
	if c.waited {
		return fmt.Errorf("exec: Wait was already called")
	}
	c.waited = true
	p := c.proc
	if _, t := simrt.Current(); t != nil {
		simrt.Block("proc.wait", func() bool {
			p.mu.Lock()
			defer p.mu.Unlock()
			return p.Exited
		})
	} else {
		for {
			p.mu.Lock()
			done := p.Exited
			p.mu.Unlock()
			if done {
				break
			}
			time.Sleep(time.Millisecond)
		}
	}
	// os/exec: when Stdout or Stderr is not an *os.File, Wait also waits for the goroutines that copy
	// from the pipes, i.e. until every holder of the write ends (the process and its descendants) has
	// closed them - but, if WaitDelay is set, for no longer than WaitDelay after the process exited;
	// then the pipes are closed under the descendants and Wait reports ErrWaitDelay.
	delayed := false
	if _, t := simrt.Current(); t != nil && (c.Stdout != nil || c.Stderr != nil) {
		p.mu.Lock()
		exitAt, open := p.ExitAt, !p.PipesClosed
		p.mu.Unlock()
		if open {
			if c.WaitDelay > 0 {
				if rest := exitAt + c.WaitDelay - since(); rest > 0 {
					time.AfterFunc(rest, func() {
						if s := simrt.Cur(); s != nil {
							s.Poke()
						}
					})
				}
			}
			simrt.Block("proc.wait-pipes", func() bool {
				p.mu.Lock()
				defer p.mu.Unlock()
				return p.PipesClosed || c.WaitDelay > 0 && since() >= exitAt+c.WaitDelay
			})
			p.mu.Lock()
			delayed = !p.PipesClosed
			p.mu.Unlock()
		}
	}
	p.mu.Lock()
	p.Reaped = true
	st := p.State
	p.mu.Unlock()
	c.ProcessState = st
	if !st.Success() {
		return &ExitError{ProcessState: st}
	}
	if delayed {
		return ErrWaitDelay
	}
	return nil
}

// ErrWaitDelay mirrors exec.ErrWaitDelay.
var ErrWaitDelay = realexec.ErrWaitDelay

// DescendantAlive reports whether a descendant of the process is still running at the fake instant at.
func (p *Proc) DescendantAlive(at time.Duration) bool {
	p.mu.Lock()
	defer p.mu.Unlock()
	return p.Exited && p.DescUntil > at
}

// stdinPipe is the write end of a pipe to the process's standard input. Stub processes do not read
// their input (except stdin=echo), so once the kernel's pipe buffer (64 KiB) is full a write blocks
// until the process is gone, and then fails.
type stdinPipe struct {
	c      *Cmd
	n      int
	closed bool
}

func (w *stdinPipe) Write(b []byte) (int, error) {
	p := w.c.proc
	exited := func() bool {
		if p == nil {
			return false
		}
		p.mu.Lock()
		defer p.mu.Unlock()
		return p.Exited
	}
	if w.closed {
		return 0, os.ErrClosed
	}
	if exited() {
		return 0, syscall.EPIPE
	}
	w.n += len(b)
	if w.n > 65536 && (p == nil || p.Spec["stdin"] != "echo") {
		if _, t := simrt.Current(); t != nil {
			simrt.Block("proc.stdin-pipe-full", exited)
			return 0, syscall.EPIPE
		}
	}
	return len(b), nil
}

func (w *stdinPipe) Close() error { w.closed = true; return nil }

// StdinPipe returns a pipe connected to the command's standard input.
func (c *Cmd) StdinPipe() (io.WriteCloser, error) {
	if c.Stdin != nil {
		return nil, fmt.Errorf("exec: Stdin already set")
	}
	if c.Process != nil {
		return nil, fmt.Errorf("exec: StdinPipe after process started")
	}
	return &stdinPipe{c: c}, nil
}

func (c *Cmd) Output() ([]byte, error) { return nil, fmt.Errorf("simexec: Output not supported") }
func (c *Cmd) CombinedOutput() ([]byte, error) {
	return nil, fmt.Errorf("simexec: CombinedOutput not supported")
}
func (c *Cmd) Environ() []string { return c.Env }

// LookPath is passed through to the real implementation.
func LookPath(file string) (string, error) {
	for _, dir := range filepath.SplitList(simos.Getenv("PATH")) {
		p := filepath.Join(dir, file)
		if fi, err := os.Stat(p); err == nil && !fi.IsDir() && fi.Mode()&0o111 != 0 {
			return p, nil
		}
	}
	return "", fmt.Errorf("exec: %q: executable file not found in $PATH", file)
}
