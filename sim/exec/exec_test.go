package simexec

import (
	"os"
	"path/filepath"
	"strings"
	"syscall"
	"testing"
	"time"

	simrt "verif/sim/rt"
)

func TestStubProcessLifecycleOnTheFakeClock(t *testing.T) {
	dir := t.TempDir()
	stub := filepath.Join(dir, "stub")
	os.WriteFile(stub, []byte("x"), 0o755)
	var waited, killedAt time.Duration
	var err1, err2, err3 error
	var out strings.Builder
	rep := simrt.Run(t, simrt.Options{Sched: simrt.Sched{Policy: "random", Seed: 1}, IdleCap: time.Hour}, func(s *simrt.Sim) {
		epoch := time.Now()
		Reset(epoch)
		// exits by itself after 250ms with code 3
		c := Command(stub, "run=250ms", "code=3", "out=hello")
		c.Stdout = &out
		c.Dir = dir
		if err := c.Start(); err != nil {
			t.Error(err)
		}
		err1 = c.Wait()
		waited = time.Since(epoch)
		// ignores SIGQUIT, dies on SIGKILL
		k := Command(stub, "run=forever", "quit=ignore")
		k.Dir = dir
		k.Start()
		k.Process.Signal(syscall.SIGQUIT)
		time.Sleep(time.Second)
		k.Process.Kill()
		err2 = k.Wait()
		killedAt = time.Since(epoch)
		err3 = k.Process.Signal(os.Interrupt)
	})
	if rep.Deadlock || len(rep.Panics) > 0 {
		t.Fatalf("%+v", rep)
	}
	if waited != 250*time.Millisecond || err1 == nil || err1.Error() != "exit status 3" || out.String() != "hello\n" {
		t.Fatalf("first process: waited %v err %v out %q", waited, err1, out.String())
	}
	if err2 == nil || err2.Error() != "signal: killed" || killedAt != 250*time.Millisecond+time.Second+time.Nanosecond {
		t.Fatalf("second process: err %v at %v", err2, killedAt)
	}
	if err3 != os.ErrProcessDone {
		t.Fatalf("signalling a reaped process: %v", err3)
	}
	ps := Procs()
	if len(ps) != 2 || !ps[1].Reaped || len(ps[1].Signals) != 3 || ps[1].Signals[0].Sig != "quit" || ps[1].Signals[2].Result != "done" {
		t.Fatalf("records %+v", ps[1].Signals)
	}
}
