// Package simos replaces the parts of package os that the code under test uses
// for files. It passes every operation through to the real file system (so
// O_CREAT/O_EXCL/O_TRUNC, sparse growth, directory listing and flock keep their
// kernel semantics) and adds what the simulator needs on top:
//
//   - a scheduler yield before every operation (interleaving granularity: one
//     system call);
//   - a fault plan: the n-th matching operation fails, writes short then fails,
//     or the simulated process halts before / after / in the middle of it;
//   - halted processes: every later operation of that process is a no-op that
//     returns an error, and its descriptors are closed (the kernel drops its locks);
//   - page-granular torn reads and writes;
//   - simulated modification times (a shadow table stamped from the simulated
//     clock), so that Stat().ModTime() never shows host time;
//   - the ground-truth table of advisory locks held per descriptor (fed by
//     simsys.Flock), used by the lockedfile oracles.
//
// Called from a goroutine that is not a simulated task it is a plain
// pass-through (plus mtime stamping).
package simos

import (
	"errors"
	"fmt"
	"io"
	"io/fs"
	"os"
	"path/filepath"
	"sort"
	"strings"
	"sync"
	"syscall"
	"time"

	simrt "verif/sim/rt"
	simtime "verif/sim/time"
)

// Fault is one rule of the fault plan.
type Fault struct {
	Proc   int    `json:"proc"`             // simulated process the rule applies to (-1: any)
	Op     string `json:"op,omitempty"`     // operation kind ("" = any): open read write writeat truncate close stat remove chtimes readdir flock
	Class  string `json:"class,omitempty"`  // path class ("" = any)
	Nth    int    `json:"nth"`              // fire on the Nth matching operation since Arm (0-based)
	Action string `json:"action"`           // error | short | halt-before | halt-after | short-halt
	Errno  string `json:"errno,omitempty"`  // EIO (default) ENOSPC EINTR ENOLCK EACCES
	Short  int    `json:"short,omitempty"`  // bytes delivered by a short write/read before the error or halt
	Frac   int    `json:"frac,omitempty"`   // alternative to Short: permille of the requested transfer that is delivered
	Repeat int    `json:"repeat,omitempty"` // fire on this many further consecutive matches (EINTR storms)
	seen   int
	fired  int
}

// OpRec is one logged operation.
type OpRec struct {
	Proc  int    `json:"proc"`
	Op    string `json:"op"`
	Class string `json:"class"`
	Bytes int    `json:"bytes,omitempty"`
}

// Halt is the panic value that unwinds a task of a halted process.
type Halt struct{ Proc int }

func (Halt) BenignPanic() {}

// ErrHalted is returned by operations attempted by a halted process.
var ErrHalted = errors.New("simulated process has halted")

type state struct {
	mu       sync.Mutex
	faults   []*Fault
	armed    bool
	log      []OpRec
	logging  bool
	dead     map[int]bool
	files    map[*File]bool
	byFd     map[int]*File
	mtimes   map[string]time.Time
	created  map[string]bool
	lockGen  uint64
	classify func(string) string
	torn     bool
	chunk    int
	ops      map[string]int64
	fired    map[string]int64
	onOp     func(proc int, op, class, path string)
	onFileOp func(file *File, op string)
	tmpSeq   int
	onLock   func(ev LockEvent)
	firedAt  []string
}

var st = newState()

func newState() *state {
	return &state{dead: map[int]bool{}, files: map[*File]bool{}, byFd: map[int]*File{}, mtimes: map[string]time.Time{},
		created: map[string]bool{}, classify: DefaultClass, ops: map[string]int64{}, fired: map[string]int64{}}
}

// Reset forgets everything (fault plan, dead processes, shadow mtimes, created
// paths). Open files of the previous run are closed.
func Reset() {
	st.mu.Lock()
	old := st
	st = newState()
	old.mu.Unlock()
	for f := range old.files {
		f.f.Close()
	}
}

// Config knobs for one run.
func SetTorn(on bool)                               { st.torn = on }
func SetReadChunk(n int)                            { st.chunk = n }
func SetClassifier(f func(string) string)           { st.classify = f }
func OnOp(f func(proc int, op, class, path string)) { st.onOp = f }

// OnFileOp registers a callback invoked at every content operation on an open
// file (read, write, writeat, truncate), after the yield and before the effect.
func OnFileOp(f func(file *File, op string)) { st.onFileOp = f }

// OpenCountTask returns the number of open descriptors that a task opened.
func OpenCountTask(task int) int {
	st.mu.Lock()
	defer st.mu.Unlock()
	n := 0
	for f := range st.files {
		if f.task == task {
			n++
		}
	}
	return n
}

// OpenCount returns the number of descriptors a simulated process holds open.
func OpenCount(proc int) int {
	st.mu.Lock()
	defer st.mu.Unlock()
	n := 0
	for f := range st.files {
		if f.proc == proc {
			n++
		}
	}
	return n
}

// DefaultClass classifies cache and lock files by role.
func DefaultClass(p string) string {
	b := filepath.Base(p)
	switch {
	case strings.HasSuffix(b, "-a"):
		return "index"
	case strings.HasSuffix(b, "-d"):
		return "data"
	case b == "trim.txt":
		return "trim"
	}
	return "other"
}

// Arm installs a fault plan; occurrence counting starts now.
func Arm(fs []Fault) {
	st.mu.Lock()
	defer st.mu.Unlock()
	st.faults = nil
	for i := range fs {
		f := fs[i]
		st.faults = append(st.faults, &f)
	}
	st.armed = true
}

func Disarm() {
	st.mu.Lock()
	st.armed = false
	st.faults = nil
	st.mu.Unlock()
}

// StartLog / StopLog bracket a dry run whose operations are to be listed.
func StartLog() {
	st.mu.Lock()
	st.logging = true
	st.log = nil
	st.mu.Unlock()
}

func StopLog() []OpRec {
	st.mu.Lock()
	defer st.mu.Unlock()
	st.logging = false
	l := st.log
	st.log = nil
	return l
}

// Counters returns per-operation and per-fault-kind counts of this run.
func Counters() (ops, fired map[string]int64) {
	st.mu.Lock()
	defer st.mu.Unlock()
	ops, fired = map[string]int64{}, map[string]int64{}
	for k, v := range st.ops {
		ops[k] = v
	}
	for k, v := range st.fired {
		fired[k] = v
	}
	return
}

// FiredAt lists "<op> <path>" for every fault that fired since Reset, in order.
func FiredAt() []string {
	st.mu.Lock()
	defer st.mu.Unlock()
	return append([]string(nil), st.firedAt...)
}

// Created lists every path created through this package since Reset, sorted.
func Created() []string {
	st.mu.Lock()
	defer st.mu.Unlock()
	var l []string
	for p := range st.created {
		l = append(l, p)
	}
	sort.Strings(l)
	return l
}

// IsDead reports whether the simulated process has halted.
func IsDead(proc int) bool {
	st.mu.Lock()
	defer st.mu.Unlock()
	return st.dead[proc]
}

// SetMtime sets the simulated modification time of a path (harness use).
func SetMtime(path string, t time.Time) {
	st.mu.Lock()
	st.mtimes[clean(path)] = t
	st.mu.Unlock()
}

// SnapshotMtimes / RestoreMtimes save and restore the shadow mtime table
// (harnesses that rewind the disk after a dry run).
func SnapshotMtimes() map[string]time.Time {
	st.mu.Lock()
	defer st.mu.Unlock()
	m := make(map[string]time.Time, len(st.mtimes))
	for k, v := range st.mtimes {
		m[k] = v
	}
	return m
}

func RestoreMtimes(m map[string]time.Time) {
	st.mu.Lock()
	defer st.mu.Unlock()
	st.mtimes = make(map[string]time.Time, len(m))
	for k, v := range m {
		st.mtimes[k] = v
	}
}

// noteBytes records the size of the transfer of the operation just logged.
func noteBytes(n int) {
	st.mu.Lock()
	if st.logging && len(st.log) > 0 {
		st.log[len(st.log)-1].Bytes = n
	}
	st.mu.Unlock()
}

// Mtime returns the simulated modification time of a path, if stamped.
func Mtime(path string) (time.Time, bool) {
	st.mu.Lock()
	defer st.mu.Unlock()
	t, ok := st.mtimes[clean(path)]
	return t, ok
}

func clean(p string) string {
	if !filepath.IsAbs(p) {
		if a, err := filepath.Abs(p); err == nil {
			return a
		}
	}
	return filepath.Clean(p)
}

func stamp(path string) {
	st.mu.Lock()
	st.mtimes[clean(path)] = simtime.Now()
	st.mu.Unlock()
}

// stampDir records that an entry of path's directory was created, removed or
// renamed now: the kernel moves the directory's own mtime on such changes (and
// on no others - writing to or touching a file inside it does not).
func stampDir(path string) {
	stamp(filepath.Dir(clean(path)))
}

func errnoOf(s string) error {
	switch s {
	case "ENOSPC":
		return syscall.ENOSPC
	case "EINTR":
		return syscall.EINTR
	case "ENOLCK":
		return syscall.ENOLCK
	case "EACCES":
		return syscall.EACCES
	case "EDQUOT":
		return syscall.EDQUOT
	case "EPERM":
		return syscall.EPERM
	case "EBUSY":
		return syscall.EBUSY
	case "ENOSYS":
		return syscall.ENOSYS
	case "ENOTSUP":
		return syscall.ENOTSUP
	case "EFBIG":
		return syscall.EFBIG
	}
	return syscall.EIO
}

type decision struct {
	fail      error // fail the operation with this error (after delivering short bytes, if short >= 0)
	short     int   // -1: not short
	frac      int   // >0: short = frac permille of the transfer
	haltAfter bool
	haltMid   bool // short then halt
}

func curProc() (int, *simrt.Task) {
	_, t := simrt.Current()
	if t == nil {
		return 0, nil
	}
	return t.Proc, t
}

// Enter is called at the start of every intercepted operation. It yields,
// enforces process death and consults the fault plan.
func Enter(op, path string) (decision, error) {
	d := decision{short: -1}
	proc, t := curProc()
	if t == nil {
		return d, nil
	}
	st.mu.Lock()
	dead := st.dead[proc]
	class := st.classify(path)
	st.mu.Unlock()
	if dead {
		return d, deadErr(t, proc)
	}
	simrt.Yield(op + ":" + class)
	st.mu.Lock()
	if st.dead[proc] {
		st.mu.Unlock()
		return d, deadErr(t, proc)
	}
	st.ops[op]++
	if st.logging {
		st.log = append(st.log, OpRec{Proc: proc, Op: op, Class: class})
	}
	cb := st.onOp
	var hit *Fault
	if st.armed {
		for _, f := range st.faults {
			if f.Proc >= 0 && f.Proc != proc {
				continue
			}
			if f.Op != "" && f.Op != op {
				continue
			}
			if f.Class != "" && f.Class != class {
				continue
			}
			n := f.seen
			f.seen++
			if n >= f.Nth && n <= f.Nth+f.Repeat && hit == nil {
				hit = f
				f.fired++
			}
		}
	}
	if hit != nil {
		st.fired[hit.Action+":"+op]++
		st.fired["kind:"+hit.Action]++
		st.firedAt = append(st.firedAt, op+" "+clean(path))
	}
	st.mu.Unlock()
	if cb != nil {
		cb(proc, op, class, path)
	}
	if hit == nil {
		return d, nil
	}
	e := &fs.PathError{Op: op, Path: path, Err: errnoOf(hit.Errno)}
	switch hit.Action {
	case "error":
		d.fail = e
	case "short":
		d.fail = e
		d.short = hit.Short
		d.frac = hit.Frac
	case "halt-before":
		halt(proc)
	case "halt-after":
		d.haltAfter = true
	case "short-halt":
		if op != "read" && op != "write" && op != "writeat" {
			halt(proc) // nothing to cut short: the process dies before the operation
		}
		d.short = hit.Short
		d.frac = hit.Frac
		d.haltMid = true
	}
	return d, nil
}

func deadErr(t *simrt.Task, proc int) error {
	if t.Local == nil {
		t.Local = map[string]any{}
	}
	if t.Local["halted"] == nil {
		t.Local["halted"] = true
		panic(Halt{proc})
	}
	return ErrHalted
}

// halt kills the calling task's simulated process: descriptors are closed (the
// kernel releases its locks) and the calling task unwinds.
func halt(proc int) {
	KillProc(proc)
	_, t := simrt.Current()
	if t != nil {
		if t.Local == nil {
			t.Local = map[string]any{}
		}
		t.Local["halted"] = true
	}
	panic(Halt{proc})
}

// KillProc marks a simulated process dead and closes its descriptors.
func KillProc(proc int) {
	st.mu.Lock()
	st.dead[proc] = true
	var mine []*File
	for f := range st.files {
		if f.proc == proc {
			mine = append(mine, f)
		}
	}
	for _, f := range mine {
		delete(st.files, f)
		delete(st.byFd, f.fd)
	}
	st.lockGen++
	cb := st.onLock
	st.mu.Unlock()
	sort.Slice(mine, func(i, j int) bool { return mine[i].fd < mine[j].fd })
	for _, f := range mine {
		if f.lock != 0 && cb != nil {
			cb(LockEvent{Proc: proc, Path: f.name, Fd: f.fd, Kind: "killed", Mode: f.lock})
		}
		f.lock = 0
		f.closed = true
		f.f.Close()
	}
}

func (d decision) after(proc int) {
	if d.haltAfter {
		halt(proc)
	}
}

// ---- package-level functions ----

type fileInfo struct {
	fs.FileInfo
	mt time.Time
}

func (fi fileInfo) ModTime() time.Time { return fi.mt }

// SameFile is os.SameFile for FileInfo values that may carry a simulated mtime.
func SameFile(fi1, fi2 fs.FileInfo) bool {
	if w, ok := fi1.(fileInfo); ok {
		fi1 = w.FileInfo
	}
	if w, ok := fi2.(fileInfo); ok {
		fi2 = w.FileInfo
	}
	return os.SameFile(fi1, fi2)
}

func wrapInfo(path string, fi fs.FileInfo) fs.FileInfo {
	if fi == nil {
		return nil
	}
	if t, ok := Mtime(path); ok {
		return fileInfo{fi, t}
	}
	return fi
}

func Stat(name string) (fs.FileInfo, error) {
	d, err := Enter("stat", name)
	if err != nil {
		return nil, err
	}
	if d.fail != nil {
		return nil, d.fail
	}
	fi, err := os.Stat(name)
	proc, _ := curProc()
	d.after(proc)
	if err != nil {
		return nil, err
	}
	return wrapInfo(name, fi), nil
}

func Lstat(name string) (fs.FileInfo, error) {
	d, err := Enter("stat", name)
	if err != nil {
		return nil, err
	}
	if d.fail != nil {
		return nil, d.fail
	}
	fi, err := os.Lstat(name)
	if err != nil {
		return nil, err
	}
	return wrapInfo(name, fi), nil
}

func Remove(name string) error {
	d, err := Enter("remove", name)
	if err != nil {
		return err
	}
	if d.fail != nil {
		return d.fail
	}
	err = os.Remove(name)
	if err == nil {
		st.mu.Lock()
		delete(st.mtimes, clean(name))
		st.mu.Unlock()
		stampDir(name)
	}
	proc, _ := curProc()
	d.after(proc)
	return err
}

func Chtimes(name string, atime, mtime time.Time) error {
	d, err := Enter("chtimes", name)
	if err != nil {
		return err
	}
	if d.fail != nil {
		return d.fail
	}
	if _, err := os.Lstat(name); err != nil {
		return &fs.PathError{Op: "chtimes", Path: name, Err: syscall.ENOENT}
	}
	SetMtime(name, mtime)
	proc, _ := curProc()
	d.after(proc)
	return nil
}

// MkdirAll is passed through without a yield: no claimed property depends on
// the interleaving of directory creation.
func MkdirAll(path string, perm fs.FileMode) error {
	if proc, t := curProc(); t != nil && IsDead(proc) {
		return deadErr(t, proc)
	}
	// which directories does this call create?
	var made []string
	for p := clean(path); ; p = filepath.Dir(p) {
		if _, err := os.Lstat(p); err == nil || p == filepath.Dir(p) {
			break
		}
		made = append(made, p)
	}
	err := os.MkdirAll(path, perm)
	if err == nil {
		for _, p := range made {
			stamp(p)
		}
		if len(made) > 0 {
			stampDir(made[len(made)-1])
		}
	}
	return err
}

func Open(name string) (*File, error) { return OpenFile(name, os.O_RDONLY, 0) }

func Create(name string) (*File, error) {
	return OpenFile(name, os.O_RDWR|os.O_CREATE|os.O_TRUNC, 0666)
}

func OpenFile(name string, flag int, perm fs.FileMode) (*File, error) {
	d, err := Enter("open", name)
	if err != nil {
		return nil, err
	}
	if d.fail != nil {
		return nil, d.fail
	}
	proc, _ := curProc()
	existed := true
	if flag&os.O_CREATE != 0 {
		if _, e := os.Lstat(name); e != nil {
			existed = false
		}
	}
	// Opening a FIFO for reading only (or writing only) blocks in the kernel until the other end
	// is opened. A real blocking system call is invisible to the scheduler, so the wait is
	// simulated: the task parks until some open descriptor provides the other end (and an open
	// that nobody will ever complete shows up as a deadlock instead of hanging the process).
	if fi, e := os.Stat(name); e == nil && fi.Mode()&fs.ModeNamedPipe != 0 && flag&syscall.O_NONBLOCK == 0 {
		acc := flag & (os.O_RDONLY | os.O_WRONLY | os.O_RDWR)
		if acc != os.O_RDWR {
			if _, t := simrt.Current(); t != nil {
				other := func() bool {
					st.mu.Lock()
					defer st.mu.Unlock()
					for g := range st.files {
						if clean(g.name) != clean(name) {
							continue
						}
						ga := g.flag & (os.O_RDONLY | os.O_WRONLY | os.O_RDWR)
						if ga == os.O_RDWR || (acc == os.O_RDONLY && ga == os.O_WRONLY) || (acc == os.O_WRONLY && ga == os.O_RDONLY) {
							return true
						}
					}
					return false
				}
				simrt.Block("open:fifo", other)
			}
		}
	}
	rf, err := os.OpenFile(name, flag, perm)
	if err != nil {
		d.after(proc)
		return nil, err
	}
	f := &File{f: rf, name: name, proc: proc, flag: flag, fd: int(rf.Fd()), task: -1}
	if _, t := simrt.Current(); t != nil {
		f.task = t.ID
	}
	st.mu.Lock()
	st.files[f] = true
	st.byFd[f.fd] = f
	if !existed {
		st.created[clean(name)] = true
	}
	st.mu.Unlock()
	if !existed || flag&os.O_TRUNC != 0 {
		stamp(name)
	}
	if !existed {
		stampDir(name)
	}
	d.after(proc)
	return f, nil
}

// ReadFile reads the file in chunks (the chunk size is a per-run knob), one
// interceptable read each.
func ReadFile(name string) ([]byte, error) {
	f, err := Open(name)
	if err != nil {
		return nil, err
	}
	defer f.Close()
	chunk := st.chunk
	if chunk <= 0 {
		chunk = 512
	}
	// keep the number of steps per file bounded (the knob randomises the read
	// pattern, it must not turn one lookup into tens of thousands of decisions)
	if fi, err := f.f.Stat(); err == nil && int(fi.Size())/24 > chunk {
		chunk = int(fi.Size()) / 24
	}
	var data []byte
	for {
		if len(data)+chunk > cap(data) {
			nd := make([]byte, len(data), 2*cap(data)+chunk)
			copy(nd, data)
			data = nd
		}
		n, err := f.Read(data[len(data) : len(data)+chunk])
		data = data[:len(data)+n]
		if err != nil {
			if err == io.EOF {
				err = nil
			}
			return data, err
		}
	}
}

// ReadDir lists a directory (sorted by name, as os.ReadDir does).
func ReadDir(name string) ([]fs.DirEntry, error) {
	d, err := Enter("readdir", name)
	if err != nil {
		return nil, err
	}
	if d.fail != nil {
		return nil, d.fail
	}
	es, err := os.ReadDir(name)
	return wrapEntries(name, es), err
}

// dirEntry makes Info report the shadow mtime.
type dirEntry struct {
	fs.DirEntry
	path string
}

func (e dirEntry) Info() (fs.FileInfo, error) {
	fi, err := e.DirEntry.Info()
	if err != nil {
		return nil, err
	}
	return wrapInfo(e.path, fi), nil
}

func wrapEntries(dir string, es []fs.DirEntry) []fs.DirEntry {
	for i, e := range es {
		es[i] = dirEntry{e, filepath.Join(dir, e.Name())}
	}
	return es
}

func WriteFile(name string, data []byte, perm fs.FileMode) error {
	f, err := OpenFile(name, os.O_WRONLY|os.O_CREATE|os.O_TRUNC, perm)
	if err != nil {
		return err
	}
	_, err = f.Write(data)
	if err1 := f.Close(); err1 != nil && err == nil {
		err = err1
	}
	return err
}

// ---- File ----

// File wraps *os.File. Every method is written out (no embedding), so that no
// fast path (ReadFrom, WriteTo) can bypass the seams.
type File struct {
	f      *os.File
	name   string
	proc   int
	flag   int
	fd     int
	closed bool
	lock   int // ground truth: 0, syscall.LOCK_SH or syscall.LOCK_EX
	task   int // task that opened it (-1: outside the simulation)
}

func (f *File) Name() string { return f.name }
func (f *File) Fd() uintptr  { return uintptr(f.fd) }
func (f *File) Proc() int    { return f.proc }
func (f *File) Flag() int    { return f.flag }

// LockMode reports the advisory lock this descriptor holds (0 if none).
func (f *File) LockMode() int { return f.lock }

func (f *File) Stat() (fs.FileInfo, error) {
	d, err := Enter("fstat", f.name)
	if err != nil {
		return nil, err
	}
	if d.fail != nil {
		return nil, d.fail
	}
	fi, err := f.f.Stat()
	if err != nil {
		return nil, err
	}
	return wrapInfo(f.name, fi), nil
}

func (f *File) Close() error {
	d, err := Enter("close", f.name)
	if err != nil {
		return err
	}
	if f.closed {
		return &fs.PathError{Op: "close", Path: f.name, Err: fs.ErrClosed}
	}
	// the descriptor is released even when the close is made to report an error
	// (as close(2) does on EIO)
	st.mu.Lock()
	delete(st.files, f)
	delete(st.byFd, f.fd)
	st.lockGen++
	cb := st.onLock
	st.mu.Unlock()
	if f.lock != 0 && cb != nil {
		cb(LockEvent{Proc: f.proc, Path: f.name, Fd: f.fd, Kind: "closed-with-lock", Mode: f.lock})
	}
	f.lock = 0
	f.closed = true
	rerr := f.f.Close()
	d.after(f.proc)
	if d.fail != nil {
		return d.fail
	}
	return rerr
}

const page = 4096

// pieces splits an n-byte transfer starting at file offset off at page
// boundaries when torn transfers are enabled.
func pieces(off int64, n int) []int {
	if !st.torn || n <= page {
		return []int{n}
	}
	var ps []int
	for n > 0 {
		k := page - int(off%page)
		if k > n {
			k = n
		}
		ps = append(ps, k)
		off += int64(k)
		n -= k
	}
	return ps
}

func (f *File) Read(b []byte) (int, error) {
	d, err := Enter("read", f.name)
	if err != nil {
		return 0, err
	}
	if cb := st.onFileOp; cb != nil {
		cb(f, "read")
	}
	if d.fail != nil && d.short < 0 {
		return 0, d.fail
	}
	if d.short >= 0 && d.short < len(b) {
		b = b[:d.short]
	}
	off, _ := f.f.Seek(0, io.SeekCurrent)
	total := 0
	for i, k := range pieces(off, len(b)) {
		if i > 0 {
			simrt.Yield("read.torn")
			st.fired["torn-read-piece"]++
		}
		n, err := f.f.Read(b[total : total+k])
		total += n
		if err != nil || n < k {
			if total > 0 && err == io.EOF {
				err = nil
			}
			d.after(f.proc)
			return total, err
		}
	}
	if d.haltMid {
		halt(f.proc)
	}
	d.after(f.proc)
	if d.fail != nil {
		return total, d.fail
	}
	return total, nil
}

func (f *File) ReadAt(b []byte, off int64) (int, error) {
	d, err := Enter("readat", f.name)
	if err != nil {
		return 0, err
	}
	if d.fail != nil {
		return 0, d.fail
	}
	n, err := f.f.ReadAt(b, off)
	d.after(f.proc)
	return n, err
}

func (f *File) write(op string, b []byte, off int64, at bool) (int, error) {
	d, err := Enter(op, f.name)
	if err != nil {
		return 0, err
	}
	noteBytes(len(b))
	if cb := st.onFileOp; cb != nil {
		cb(f, op)
	}
	if d.fail != nil && d.short < 0 {
		return 0, d.fail
	}
	want := len(b)
	if d.short >= 0 && d.frac > 0 {
		d.short = len(b) * d.frac / 1000
	}
	if d.short >= 0 && d.short < len(b) {
		b = b[:d.short]
	}
	pos := off
	if !at {
		pos, _ = f.f.Seek(0, io.SeekCurrent)
		if f.flag&os.O_APPEND != 0 {
			if fi, e := f.f.Stat(); e == nil {
				pos = fi.Size()
			}
		}
	}
	total := 0
	for i, k := range pieces(pos, len(b)) {
		if i > 0 {
			simrt.Yield(op + ".torn")
			st.fired["torn-write-piece"]++
		}
		var n int
		var err error
		if at {
			n, err = f.f.WriteAt(b[total:total+k], off+int64(total))
		} else {
			n, err = f.f.Write(b[total : total+k])
		}
		total += n
		if n > 0 {
			stamp(f.name)
		}
		if err != nil {
			d.after(f.proc)
			return total, err
		}
	}
	if len(b) == 0 {
		stamp(f.name)
	}
	if d.haltMid {
		halt(f.proc)
	}
	d.after(f.proc)
	if d.fail != nil {
		return total, d.fail
	}
	if total < want {
		return total, io.ErrShortWrite
	}
	return total, nil
}

func (f *File) Write(b []byte) (int, error)       { return f.write("write", b, 0, false) }
func (f *File) WriteString(s string) (int, error) { return f.write("write", []byte(s), 0, false) }
func (f *File) WriteAt(b []byte, off int64) (int, error) {
	return f.write("writeat", b, off, true)
}

func (f *File) Seek(offset int64, whence int) (int64, error) {
	// seeking touches only the private descriptor: no yield, no fault
	if proc, t := curProc(); t != nil && IsDead(proc) {
		return 0, deadErr(t, proc)
	}
	return f.f.Seek(offset, whence)
}

func (f *File) Truncate(size int64) error {
	d, err := Enter("truncate", f.name)
	if err != nil {
		return err
	}
	if cb := st.onFileOp; cb != nil {
		cb(f, "truncate")
	}
	if d.fail != nil {
		return d.fail
	}
	err = f.f.Truncate(size)
	if err == nil {
		stamp(f.name)
	}
	d.after(f.proc)
	return err
}

func (f *File) Sync() error {
	d, err := Enter("sync", f.name)
	if err != nil {
		return err
	}
	if d.fail != nil {
		return d.fail
	}
	return f.f.Sync()
}

func (f *File) Chmod(mode fs.FileMode) error {
	if _, err := Enter("chmod", f.name); err != nil {
		return err
	}
	return f.f.Chmod(mode)
}

// Readdirnames returns the names sorted: the kernel's order is unspecified
// and must not leak into a replayable run.
func (f *File) Readdirnames(n int) ([]string, error) {
	d, err := Enter("readdir", f.name)
	if err != nil {
		return nil, err
	}
	if d.fail != nil {
		return nil, d.fail
	}
	names, err := f.f.Readdirnames(n)
	sort.Strings(names)
	return names, err
}

func (f *File) ReadDir(n int) ([]fs.DirEntry, error) {
	d, err := Enter("readdir", f.name)
	if err != nil {
		return nil, err
	}
	if d.fail != nil {
		return nil, d.fail
	}
	es, err := f.f.ReadDir(n)
	sort.Slice(es, func(i, j int) bool { return es[i].Name() < es[j].Name() })
	return wrapEntries(f.name, es), err
}

// Readdir is ReadDir with the FileInfo of each entry, carrying the shadow
// mtime as it stands at the time of the listing.
func (f *File) Readdir(n int) ([]fs.FileInfo, error) {
	d, err := Enter("readdir", f.name)
	if err != nil {
		return nil, err
	}
	if d.fail != nil {
		return nil, d.fail
	}
	fis, err := f.f.Readdir(n)
	sort.Slice(fis, func(i, j int) bool { return fis[i].Name() < fis[j].Name() })
	for i, fi := range fis {
		fis[i] = wrapInfo(filepath.Join(f.name, fi.Name()), fi)
	}
	return fis, err
}

// Real exposes the underlying file to harness code.
func (f *File) Real() *os.File { return f.f }

// ---- advisory locks (called through verif/sim/sys) ----

// LockEvent is reported to the harness for every lock state change.
type LockEvent struct {
	Proc int
	Path string
	Fd   int
	Kind string // acquired | released | closed-with-lock | killed | error
	Mode int
}

func OnLock(f func(LockEvent)) { st.onLock = f }

// Holders returns the ground-truth lock table for a path: descriptors holding a
// lock and their modes, in fd order.
func Holders(path string) (sh, ex int) {
	st.mu.Lock()
	defer st.mu.Unlock()
	p := clean(path)
	for f := range st.files {
		if clean(f.name) == p {
			switch f.lock {
			case syscall.LOCK_SH:
				sh++
			case syscall.LOCK_EX:
				ex++
			}
		}
	}
	return
}

// FileByFd finds the open simulated file for a descriptor.
func FileByFd(fd int) *File {
	st.mu.Lock()
	defer st.mu.Unlock()
	return st.byFd[fd]
}

// Flock implements syscall.Flock for simulated descriptors: the kernel's real
// flock is the arbiter (always called with LOCK_NB); blocking is emulated by the
// scheduler.
func Flock(fd int, how int) error {
	f := FileByFd(fd)
	_, t := simrt.Current()
	if f == nil || t == nil {
		return syscall.Flock(fd, how)
	}
	mode := how &^ syscall.LOCK_NB
	opname := "flock"
	switch mode {
	case syscall.LOCK_UN:
		opname = "funlock"
	}
	d, err := Enter(opname, f.name)
	if err != nil {
		return syscall.EBADF
	}
	if d.fail != nil {
		var pe *fs.PathError
		if errors.As(d.fail, &pe) {
			if en, ok := pe.Err.(syscall.Errno); ok {
				return en
			}
		}
		return syscall.EIO
	}
	if mode == syscall.LOCK_UN {
		err := syscall.Flock(fd, syscall.LOCK_UN)
		if err == nil {
			st.mu.Lock()
			st.lockGen++
			cb := st.onLock
			st.mu.Unlock()
			prev := f.lock
			f.lock = 0
			if cb != nil {
				cb(LockEvent{Proc: f.proc, Path: f.name, Fd: fd, Kind: "released", Mode: prev})
			}
		}
		d.after(f.proc)
		return err
	}
	for {
		if f.closed {
			return syscall.EBADF
		}
		err := syscall.Flock(fd, mode|syscall.LOCK_NB)
		if err == nil {
			f.lock = mode
			st.mu.Lock()
			cb := st.onLock
			st.ops["flock-acquired"]++
			st.mu.Unlock()
			if cb != nil {
				cb(LockEvent{Proc: f.proc, Path: f.name, Fd: fd, Kind: "acquired", Mode: mode})
			}
			d.after(f.proc)
			return nil
		}
		if err != syscall.EWOULDBLOCK {
			return err
		}
		if how&syscall.LOCK_NB != 0 {
			return err
		}
		st.mu.Lock()
		gen := st.lockGen
		st.ops["flock-blocked"]++
		st.mu.Unlock()
		simrt.Block("flock.wait:"+st.classify(f.name), func() bool {
			// evaluated by the scheduler while all tasks are stopped
			return st.lockGen != gen || st.dead[f.proc]
		})
		if IsDead(f.proc) {
			deadErr(t, f.proc)
			return syscall.EBADF
		}
	}
}

var _ = fmt.Sprintf

// ---- processes (the type only; behaviour lives in verif/sim/exec) ----

// ProcessImpl is what a simulated process does when signalled.
type ProcessImpl interface {
	Signal(sig os.Signal) error
}

// Process replaces os.Process.
type Process struct {
	Pid  int
	impl ProcessImpl
}

func NewProcess(pid int, impl ProcessImpl) *Process { return &Process{Pid: pid, impl: impl} }

func (p *Process) Signal(sig os.Signal) error { return p.impl.Signal(sig) }
func (p *Process) Kill() error                { return p.impl.Signal(os.Kill) }
func (p *Process) Release() error             { return nil }

// ---- host environment ----

var (
	envMu  sync.Mutex
	envTab map[string]string // nil: the real environment
)

// SetEnvTable installs the simulated host environment (nil restores the real one).
func SetEnvTable(m map[string]string) {
	envMu.Lock()
	envTab = m
	envMu.Unlock()
}

func Getenv(key string) string {
	envMu.Lock()
	defer envMu.Unlock()
	if envTab == nil {
		return os.Getenv(key)
	}
	return envTab[key]
}

func LookupEnv(key string) (string, bool) {
	envMu.Lock()
	defer envMu.Unlock()
	if envTab == nil {
		return os.LookupEnv(key)
	}
	v, ok := envTab[key]
	return v, ok
}

func Setenv(key, value string) error {
	envMu.Lock()
	defer envMu.Unlock()
	if envTab == nil {
		return os.Setenv(key, value)
	}
	envTab[key] = value
	return nil
}

func Environ() []string {
	envMu.Lock()
	defer envMu.Unlock()
	if envTab == nil {
		return os.Environ()
	}
	var l []string
	for k, v := range envTab {
		l = append(l, k+"="+v)
	}
	sort.Strings(l)
	return l
}

// ---- further path operations (pass-through behind a yield and the fault plan) ----

func simple(op, name string, f func() error) error {
	d, err := Enter(op, name)
	if err != nil {
		return err
	}
	if d.fail != nil {
		return d.fail
	}
	err = f()
	proc, _ := curProc()
	d.after(proc)
	return err
}

func RemoveAll(path string) error {
	return simple("removeall", path, func() error {
		_, lerr := os.Lstat(path)
		err := os.RemoveAll(path)
		if err == nil && lerr == nil {
			pre := clean(path)
			st.mu.Lock()
			for k := range st.mtimes {
				if k == pre || strings.HasPrefix(k, pre+string(filepath.Separator)) {
					delete(st.mtimes, k)
				}
			}
			st.mu.Unlock()
			stampDir(path)
		}
		return err
	})
}

// Rename keeps the file's (shadow) mtime, as the kernel does, and moves the
// mtimes of both directories.
func Rename(oldpath, newpath string) error {
	return simple("rename", oldpath, func() error {
		err := os.Rename(oldpath, newpath)
		if err == nil {
			o, n := clean(oldpath), clean(newpath)
			st.mu.Lock()
			moved := map[string]time.Time{}
			for k, v := range st.mtimes {
				if k == o || strings.HasPrefix(k, o+string(filepath.Separator)) {
					moved[n+k[len(o):]] = v
					delete(st.mtimes, k)
				}
			}
			if _, ok := moved[n]; !ok {
				delete(st.mtimes, n)
			}
			for k, v := range moved {
				st.mtimes[k] = v
			}
			st.mu.Unlock()
			stampDir(oldpath)
			stampDir(newpath)
		}
		return err
	})
}
func Chmod(name string, mode fs.FileMode) error {
	return simple("chmod", name, func() error { return os.Chmod(name, mode) })
}
func Symlink(oldname, newname string) error {
	return simple("symlink", newname, func() error { return made(newname, os.Symlink(oldname, newname), false) })
}
func Link(oldname, newname string) error {
	return simple("link", newname, func() error { return made(newname, os.Link(oldname, newname), false) })
}
func Mkdir(name string, perm fs.FileMode) error {
	return simple("mkdir", name, func() error { return made(name, os.Mkdir(name, perm), true) })
}

// made records a new directory entry (and, for a directory, its own mtime).
func made(name string, err error, own bool) error {
	if err == nil {
		if own {
			stamp(name)
		}
		stampDir(name)
	}
	return err
}

// MkdirTemp creates a directory with a deterministic name (a per-run counter
// instead of os.MkdirTemp's random suffix, so that logs and traces replay).
func MkdirTemp(dir, pattern string) (string, error) {
	if dir == "" {
		dir = TempDir()
	}
	var name string
	err := simple("mkdirtemp", dir, func() error {
		for i := 0; i < 10000; i++ {
			st.mu.Lock()
			st.tmpSeq++
			n := st.tmpSeq
			st.mu.Unlock()
			prefix, suffix := pattern, ""
			if j := strings.LastIndex(pattern, "*"); j >= 0 {
				prefix, suffix = pattern[:j], pattern[j+1:]
			}
			name = filepath.Join(dir, fmt.Sprintf("%s%06d%s", prefix, n, suffix))
			err := os.Mkdir(name, 0o700)
			if err == nil {
				return made(name, nil, true)
			}
			if !os.IsExist(err) {
				return err
			}
		}
		return errors.New("simos.MkdirTemp: no free name")
	})
	if err != nil {
		return "", err
	}
	return name, nil
}

// TempDir honours the simulated environment.
func TempDir() string {
	if d := Getenv("TMPDIR"); d != "" {
		return d
	}
	return "/tmp"
}
