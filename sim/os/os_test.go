package simos

import (
	"bytes"
	"errors"
	"io"
	"math/rand"
	"os"
	"path/filepath"
	"syscall"
	"testing"

	simrt "verif/sim/rt"
)

// The shim must not change what a fault-free program sees: random operation
// sequences give the same results through simos.File and through os.File.
func TestPassThroughAgreesWithOS(t *testing.T) {
	dir := t.TempDir()
	rng := rand.New(rand.NewSource(7))
	for round := 0; round < 50; round++ {
		Reset()
		pa, pb := filepath.Join(dir, "a"), filepath.Join(dir, "b")
		os.Remove(pa)
		os.Remove(pb)
		fa, errA := OpenFile(pa, os.O_RDWR|os.O_CREATE, 0o666)
		fb, errB := os.OpenFile(pb, os.O_RDWR|os.O_CREATE, 0o666)
		if errA != nil || errB != nil {
			t.Fatal(errA, errB)
		}
		for step := 0; step < 40; step++ {
			switch rng.Intn(5) {
			case 0:
				b := make([]byte, rng.Intn(9000))
				rng.Read(b)
				na, ea := fa.Write(b)
				nb, eb := fb.Write(b)
				if na != nb || (ea == nil) != (eb == nil) {
					t.Fatalf("Write: %d %v vs %d %v", na, ea, nb, eb)
				}
			case 1:
				b := make([]byte, rng.Intn(5000))
				rng.Read(b)
				off := int64(rng.Intn(10000))
				na, ea := fa.WriteAt(b, off)
				nb, eb := fb.WriteAt(b, off)
				if na != nb || (ea == nil) != (eb == nil) {
					t.Fatalf("WriteAt: %d %v vs %d %v", na, ea, nb, eb)
				}
			case 2:
				n := int64(rng.Intn(12000))
				if (fa.Truncate(n) == nil) != (fb.Truncate(n) == nil) {
					t.Fatal("Truncate differs")
				}
			case 3:
				off := int64(rng.Intn(3000))
				oa, _ := fa.Seek(off, io.SeekStart)
				ob, _ := fb.Seek(off, io.SeekStart)
				ba, bb := make([]byte, 700), make([]byte, 700)
				na, ea := fa.Read(ba)
				nb, eb := fb.Read(bb)
				if oa != ob || na != nb || !bytes.Equal(ba[:na], bb[:nb]) || (ea == io.EOF) != (eb == io.EOF) {
					t.Fatalf("Read: %d %v vs %d %v", na, ea, nb, eb)
				}
			case 4:
				sa, _ := fa.Stat()
				sb, _ := fb.Stat()
				if sa.Size() != sb.Size() {
					t.Fatalf("Stat size %d vs %d", sa.Size(), sb.Size())
				}
			}
		}
		fa.Close()
		fb.Close()
		da, _ := ReadFile(pa)
		db, _ := os.ReadFile(pb)
		if !bytes.Equal(da, db) {
			t.Fatalf("round %d: contents differ (%d vs %d bytes)", round, len(da), len(db))
		}
		if err := fa.Close(); err == nil {
			t.Fatal("second Close succeeded")
		}
	}
}

func TestFaultPlanAndHalt(t *testing.T) {
	dir := t.TempDir()
	p := filepath.Join(dir, "f")
	var werr, herr error
	var n int
	halted := false
	rep := simrt.Run(t, simrt.Options{Sched: simrt.Sched{Policy: "random", Seed: 3}, Strict: true}, func(s *simrt.Sim) {
		Reset()
		Arm([]Fault{{Proc: 1, Op: "write", Nth: 1, Action: "short", Errno: "ENOSPC", Frac: 500}, {Proc: 2, Op: "write", Nth: 0, Action: "halt-after"}})
		left := 2
		s.Go("w1", 1, func() {
			defer func() { left-- }()
			f, _ := OpenFile(p, os.O_WRONLY|os.O_CREATE, 0o666)
			f.Write([]byte("0123456789"))
			n, werr = f.Write([]byte("abcdefghij"))
			f.Close()
		})
		simrt.Block("w1 done", func() bool { return left == 1 })
		s.Go("w2", 2, func() {
			defer func() {
				left--
				if r := recover(); r != nil {
					if _, ok := r.(Halt); ok {
						halted = true
					}
					panic(r)
				}
			}()
			f, _ := OpenFile(p+"2", os.O_WRONLY|os.O_CREATE, 0o666)
			defer func() { herr = f.Close() }() // runs while the task unwinds: must not touch the disk
			f.Write([]byte("xyz"))
			t.Error("the process continued after its halt point")
		})
		simrt.Block("join", func() bool { return left == 0 })
		Disarm()
	})
	if n != 5 || !errors.Is(werr, syscall.ENOSPC) {
		t.Fatalf("short write: n=%d err=%v", n, werr)
	}
	if data, _ := os.ReadFile(p); string(data) != "0123456789abcde" {
		t.Fatalf("file after short write: %q", data)
	}
	if !halted || rep.Halts != 1 || !errors.Is(herr, ErrHalted) {
		t.Fatalf("halt: halted=%v report=%+v close err=%v", halted, rep, herr)
	}
	if data, _ := os.ReadFile(p + "2"); string(data) != "xyz" {
		t.Fatalf("halt-after: the operation itself must have completed, file holds %q", data)
	}
	if !IsDead(2) || OpenCount(2) != 0 {
		t.Fatal("descriptors of the halted process were not closed")
	}
}

func TestFlockBlocksAndWakes(t *testing.T) {
	dir := t.TempDir()
	p := filepath.Join(dir, "lock")
	order := ""
	rep := simrt.Run(t, simrt.Options{Sched: simrt.Sched{Policy: "random", Seed: 5}, Strict: true}, func(s *simrt.Sim) {
		Reset()
		left := 2
		f1, _ := OpenFile(p, os.O_RDWR|os.O_CREATE, 0o666)
		if err := Flock(int(f1.Fd()), syscall.LOCK_EX); err != nil {
			t.Error(err)
		}
		s.Go("second", 2, func() {
			defer func() { left-- }()
			f2, _ := OpenFile(p, os.O_RDWR, 0)
			Flock(int(f2.Fd()), syscall.LOCK_EX) // must wait for the first holder
			order += "2"
			if sh, ex := Holders(p); sh != 0 || ex != 1 {
				t.Errorf("holders sh=%d ex=%d", sh, ex)
			}
			f2.Close()
		})
		s.Go("first", 1, func() {
			defer func() { left-- }()
			simrt.Yield("hold")
			simrt.Yield("hold")
			order += "1"
			Flock(int(f1.Fd()), syscall.LOCK_UN)
		})
		simrt.Block("join", func() bool { return left == 0 })
		f1.Close()
	})
	if rep.Deadlock || order != "12" {
		t.Fatalf("order %q report %+v", order, rep)
	}
}

func TestTornTransfersSplitAtPages(t *testing.T) {
	dir := t.TempDir()
	p := filepath.Join(dir, "big")
	rep := simrt.Run(t, simrt.Options{Sched: simrt.Sched{Policy: "random", Seed: 1}, Strict: true, KeepTrace: true}, func(s *simrt.Sim) {
		Reset()
		SetTorn(true)
		f, _ := OpenFile(p, os.O_RDWR|os.O_CREATE, 0o666)
		f.Write(make([]byte, 3*4096+10))
		f.Close()
	})
	torn := 0
	for _, e := range rep.Trace {
		if e.Site == "write.torn" {
			torn++
		}
	}
	if torn != 3 {
		t.Fatalf("a 3-page-and-a-bit write should be delivered in 4 pieces (3 extra yields), got %d", torn)
	}
	SetTorn(false)
}
