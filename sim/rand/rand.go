// Package simrand replaces the unseeded top-level functions of math/rand in
// rewritten code under test with draws from the scheduler's PRNG.
package simrand

import (
	"math/rand"

	simrt "verif/sim/rt"
)

var Draws int64

func Intn(n int) int {
	if s, t := simrt.Current(); t != nil {
		Draws++
		return s.Choose(n)
	}
	return rand.Intn(n)
}
