// Package simrand replaces the unseeded top-level functions of math/rand in
// rewritten code under test with draws from the scheduler's PRNG.
package simrand

import (
	"math/rand"

	simrt "verif/sim/rt"
)

var Draws int64

func Intn(n int) int {
	if s, t := simrt.Current(); t != nil {
		Draws++
		return s.Choose(n)
	}
	return rand.Intn(n)
}

// The other unseeded top-level draws, all taken from the scheduler's PRNG inside a simulation.

func Int63n(n int64) int64 {
	if s, t := simrt.Current(); t != nil && n > 0 {
		Draws++
		if n <= 1<<30 {
			return int64(s.Choose(int(n)))
		}
		return (int64(s.Choose(1<<30))<<30 | int64(s.Choose(1<<30))) % n
	}
	return rand.Int63n(n)
}

func Int31n(n int32) int32 { return int32(Int63n(int64(n))) }
func Int() int            { return int(Int63n(1 << 62)) }
func Int63() int64        { return Int63n(1 << 62) }
func Int31() int32        { return int32(Int63n(1 << 31)) }
func Uint32() uint32      { return uint32(Int63n(1 << 32)) }
func Float64() float64    { return float64(Int63n(1<<53)) / (1 << 53) }
func Float32() float32    { return float32(Int63n(1<<24)) / (1 << 24) }

func Perm(n int) []int {
	p := make([]int, n)
	for i := range p {
		p[i] = i
	}
	Shuffle(n, func(i, j int) { p[i], p[j] = p[j], p[i] })
	return p
}

func Shuffle(n int, swap func(i, j int)) {
	if _, t := simrt.Current(); t == nil {
		rand.Shuffle(n, swap)
		return
	}
	for i := n - 1; i > 0; i-- {
		swap(i, Intn(i+1))
	}
}
