package simsync

import (
	"testing"

	simrt "verif/sim/rt"
)

func TestMutexExcludesUnderEverySchedule(t *testing.T) {
	for seed := uint64(0); seed < 200; seed++ {
		var mu Mutex
		inside, max, total := 0, 0, 0
		rep := simrt.Run(t, simrt.Options{Sched: simrt.Sched{Policy: "random", Seed: seed}, Strict: true}, func(s *simrt.Sim) {
			left := 3
			for i := 0; i < 3; i++ {
				s.Go("w", 0, func() {
					defer func() { left-- }()
					for k := 0; k < 3; k++ {
						mu.Lock()
						inside++
						if inside > max {
							max = inside
						}
						simrt.Yield("critical")
						total++
						inside--
						mu.Unlock()
					}
				})
			}
			simrt.Block("join", func() bool { return left == 0 })
		})
		if rep.Deadlock || max != 1 || total != 9 {
			t.Fatalf("seed %d: max inside %d total %d deadlock %v", seed, max, total, rep.Deadlock)
		}
	}
}

func TestCondSignalWakesExactlyOneAndBroadcastAll(t *testing.T) {
	for seed := uint64(0); seed < 100; seed++ {
		var mu Mutex
		c := Cond{L: &mu}
		ready, woken := 0, 0
		rep := simrt.Run(t, simrt.Options{Sched: simrt.Sched{Policy: "random", Seed: seed}, Strict: true}, func(s *simrt.Sim) {
			left := 3
			for i := 0; i < 3; i++ {
				s.Go("waiter", 0, func() {
					defer func() { left-- }()
					mu.Lock()
					ready++
					for woken == 0 {
						c.Wait()
					}
					woken--
					mu.Unlock()
				})
			}
			simrt.Block("all waiting", func() bool { return ready == 3 && len(c.waiters) == 3 })
			mu.Lock()
			woken = 1
			c.Signal()
			mu.Unlock()
			simrt.Block("one done", func() bool { return left == 2 })
			mu.Lock()
			woken = 2
			c.Broadcast()
			mu.Unlock()
			simrt.Block("join", func() bool { return left == 0 })
		})
		if rep.Deadlock || len(rep.Panics) > 0 {
			t.Fatalf("seed %d: %+v", seed, rep)
		}
	}
}

func TestOnceAndWaitGroup(t *testing.T) {
	for seed := uint64(0); seed < 100; seed++ {
		var once Once
		var wg WaitGroup
		calls, after := 0, 0
		rep := simrt.Run(t, simrt.Options{Sched: simrt.Sched{Policy: "pct", Seed: seed, Changes: []int{2, 5}}, Strict: true}, func(s *simrt.Sim) {
			wg.Add(3)
			for i := 0; i < 3; i++ {
				s.Go("w", 0, func() {
					defer wg.Done()
					once.Do(func() { simrt.Yield("in once"); calls++ })
					if calls != 1 {
						after++
					}
				})
			}
			wg.Wait()
		})
		if rep.Deadlock || calls != 1 || after != 0 {
			t.Fatalf("seed %d: calls %d, %d callers returned before the one call finished", seed, calls, after)
		}
	}
}

func TestFallbackOutsideSimulation(t *testing.T) {
	var mu Mutex
	mu.Lock()
	if mu.TryLock() {
		t.Fatal("TryLock succeeded on a held mutex")
	}
	mu.Unlock()
	var m Map
	m.Store(1, 2)
	if v, ok := m.Load(1); !ok || v != 2 {
		t.Fatal("Map fallback")
	}
}
