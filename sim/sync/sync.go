// Package simsync replaces package sync in rewritten code under test.
// Inside a simulation blocking is implemented by the scheduler (a blocked task
// is simply not eligible), so no task ever parks while holding a real lock.
// Outside a simulation every type falls back to the real implementation.
package simsync

import (
	"sync"

	simrt "verif/sim/rt"
)

type Locker = sync.Locker

// Stats counts seam operations (read by harnesses to fail closed when a seam
// they rely on is no longer reached).
var Stats struct {
	MutexLock, CondWait, CondSignal, CondBroadcast, MapOps, OnceDo int64
}

func ResetStats() {
	Stats = struct{ MutexLock, CondWait, CondSignal, CondBroadcast, MapOps, OnceDo int64 }{}
}

func noteBlocked(t *simrt.Task) {
	if t.Local == nil {
		t.Local = map[string]any{}
	}
	n, _ := t.Local["mutexBlocked"].(int)
	t.Local["mutexBlocked"] = n + 1
}

// Ops counts every synchronisation operation that went through this package in a simulation.
var Ops int64

type Mutex struct {
	real sync.Mutex
	held bool
	// Waiters is the number of tasks that were found blocked on this mutex by the
	// scheduler at least once (used for "Get never blocks" style oracles).
}

func (m *Mutex) Lock() {
	s, t := simrt.Current()
	if t == nil {
		m.real.Lock()
		return
	}
	_ = s
	Stats.MutexLock++
	Ops++
	blocked := false
	simrt.Block("Mutex.Lock", func() bool {
		if m.held {
			blocked = true
		}
		return !m.held
	})
	if blocked {
		if n, ok := t.Local["mutexBlocked"].(int); ok {
			t.Local["mutexBlocked"] = n + 1
		} else {
			if t.Local == nil {
				t.Local = map[string]any{}
			}
			t.Local["mutexBlocked"] = 1
		}
	}
	m.held = true
}

func (m *Mutex) TryLock() bool {
	_, t := simrt.Current()
	if t == nil {
		return m.real.TryLock()
	}
	simrt.Yield("Mutex.TryLock")
	if m.held {
		return false
	}
	m.held = true
	return true
}

func (m *Mutex) Unlock() {
	_, t := simrt.Current()
	if t == nil {
		m.real.Unlock()
		return
	}
	simrt.Yield("Mutex.Unlock")
	if !m.held {
		panic("sync: unlock of unlocked mutex")
	}
	m.held = false
}

type waiter struct{ signalled bool }

type Cond struct {
	L       Locker
	real    *sync.Cond
	waiters []*waiter
}

func NewCond(l Locker) *Cond { return &Cond{L: l} }

func (c *Cond) fallback() *sync.Cond {
	if c.real == nil {
		c.real = sync.NewCond(c.L)
	}
	return c.real
}

func (c *Cond) Wait() {
	_, t := simrt.Current()
	if t == nil {
		c.fallback().Wait()
		return
	}
	Stats.CondWait++
	w := &waiter{}
	c.waiters = append(c.waiters, w)
	c.L.Unlock()
	simrt.Block("Cond.Wait", func() bool { return w.signalled })
	c.L.Lock()
}

func (c *Cond) Signal() {
	s, t := simrt.Current()
	if t == nil {
		if sim := simrt.Cur(); sim != nil && len(c.waiters) > 0 {
			// a goroutine the scheduler does not know (a runtime timer callback) wakes a simulated waiter
			c.waiters[0].signalled = true
			c.waiters = c.waiters[1:]
			sim.Poke()
			return
		}
		c.fallback().Signal()
		return
	}
	Stats.CondSignal++
	simrt.Yield("Cond.Signal")
	if len(c.waiters) == 0 {
		return
	}
	i := s.Choose(len(c.waiters))
	c.waiters[i].signalled = true
	c.waiters = append(c.waiters[:i:i], c.waiters[i+1:]...)
}

func (c *Cond) Broadcast() {
	_, t := simrt.Current()
	if t == nil {
		if sim := simrt.Cur(); sim != nil && len(c.waiters) > 0 {
			for _, w := range c.waiters {
				w.signalled = true
			}
			c.waiters = nil
			sim.Poke()
			return
		}
		c.fallback().Broadcast()
		return
	}
	Stats.CondBroadcast++
	simrt.Yield("Cond.Broadcast")
	for _, w := range c.waiters {
		w.signalled = true
	}
	c.waiters = nil
}

type RWMutex struct {
	real    sync.RWMutex
	writer  bool
	readers int
}

func (m *RWMutex) Lock() {
	_, t := simrt.Current()
	if t == nil {
		m.real.Lock()
		return
	}
	Ops++
	blocked := false
	simrt.Block("RWMutex.Lock", func() bool {
		if m.writer || m.readers != 0 {
			blocked = true
		}
		return !m.writer && m.readers == 0
	})
	if blocked {
		noteBlocked(t)
	}
	m.writer = true
}

func (m *RWMutex) Unlock() {
	_, t := simrt.Current()
	if t == nil {
		m.real.Unlock()
		return
	}
	simrt.Yield("RWMutex.Unlock")
	m.writer = false
}

func (m *RWMutex) RLock() {
	_, t := simrt.Current()
	if t == nil {
		m.real.RLock()
		return
	}
	Ops++
	blocked := false
	simrt.Block("RWMutex.RLock", func() bool {
		if m.writer {
			blocked = true
		}
		return !m.writer
	})
	if blocked {
		noteBlocked(t)
	}
	m.readers++
}

func (m *RWMutex) RUnlock() {
	_, t := simrt.Current()
	if t == nil {
		m.real.RUnlock()
		return
	}
	simrt.Yield("RWMutex.RUnlock")
	m.readers--
}

func (m *RWMutex) TryLock() bool {
	_, t := simrt.Current()
	if t == nil {
		return m.real.TryLock()
	}
	Ops++
	simrt.Yield("RWMutex.TryLock")
	if m.writer || m.readers != 0 {
		return false
	}
	m.writer = true
	return true
}

func (m *RWMutex) TryRLock() bool {
	_, t := simrt.Current()
	if t == nil {
		return m.real.TryRLock()
	}
	Ops++
	simrt.Yield("RWMutex.TryRLock")
	if m.writer {
		return false
	}
	m.readers++
	return true
}

type rlocker RWMutex

func (r *rlocker) Lock()   { (*RWMutex)(r).RLock() }
func (r *rlocker) Unlock() { (*RWMutex)(r).RUnlock() }

// RLocker returns a Locker whose Lock and Unlock are RLock and RUnlock.
func (m *RWMutex) RLocker() sync.Locker { return (*rlocker)(m) }

// Map yields before every operation; the data lives in a real sync.Map.
type Map struct{ m sync.Map }

func (m *Map) y(op string) { Stats.MapOps++; Ops++; simrt.Yield("Map." + op) }

func (m *Map) Load(key any) (any, bool) { m.y("Load"); return m.m.Load(key) }
func (m *Map) Store(key, value any)     { m.y("Store"); m.m.Store(key, value) }
func (m *Map) Delete(key any)           { m.y("Delete"); m.m.Delete(key) }
func (m *Map) LoadOrStore(key, value any) (any, bool) {
	m.y("LoadOrStore")
	return m.m.LoadOrStore(key, value)
}
func (m *Map) LoadAndDelete(key any) (any, bool) { m.y("LoadAndDelete"); return m.m.LoadAndDelete(key) }
func (m *Map) Range(f func(key, value any) bool) {
	// sync.Map.Range order is unspecified; code under test that depends on it
	// cannot be replayed. None of the anchored packages ranges over a Map.
	panic("simsync.Map.Range: iteration order is not deterministic; add an ordered seam")
}

type Once struct {
	real    sync.Once
	done    bool
	running bool
}

func (o *Once) Do(f func()) {
	_, t := simrt.Current()
	if t == nil {
		o.real.Do(f)
		return
	}
	Stats.OnceDo++
	simrt.Block("Once.Do", func() bool { return !o.running })
	if o.done {
		return
	}
	o.running = true
	defer func() { o.running = false; o.done = true }()
	f()
}

type WaitGroup struct {
	real sync.WaitGroup
	n    int
}

func (w *WaitGroup) Add(d int) {
	_, t := simrt.Current()
	if t == nil {
		w.real.Add(d)
		return
	}
	simrt.Yield("WaitGroup.Add")
	w.n += d
	if w.n < 0 {
		panic("sync: negative WaitGroup counter")
	}
}

func (w *WaitGroup) Done() { w.Add(-1) }

func (w *WaitGroup) Wait() {
	_, t := simrt.Current()
	if t == nil {
		w.real.Wait()
		return
	}
	simrt.Block("WaitGroup.Wait", func() bool { return w.n == 0 })
}

// Pool is a deterministic stand-in for sync.Pool: a LIFO stack that never drops
// items on its own (sync.Pool's eviction and per-P caches are not seedable).
type Pool struct {
	New   func() any
	items []any
	real  sync.Mutex
}

func (p *Pool) Get() any {
	simrt.Yield("Pool.Get")
	p.real.Lock()
	defer p.real.Unlock()
	if n := len(p.items); n > 0 {
		x := p.items[n-1]
		p.items = p.items[:n-1]
		return x
	}
	if p.New != nil {
		return p.New()
	}
	return nil
}

func (p *Pool) Put(x any) {
	simrt.Yield("Pool.Put")
	p.real.Lock()
	p.items = append(p.items, x)
	p.real.Unlock()
}
