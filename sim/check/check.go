// Package simcheck is the worker side of every check: it draws plans with
// rapid (the only randomness source, seeded from VERIF_SEED), executes them
// through the harness, shrinks a failing plan, re-executes the minimal plan,
// and writes a replay file and a result file for the driver (cmd/vcheck).
package simcheck

import (
	"encoding/binary"
	"encoding/json"
	"flag"
	"fmt"
	"os"
	"path/filepath"
	"runtime"
	"runtime/debug"
	"sort"
	"strconv"
	"strings"
	"testing"
	"time"

	"pgregory.net/rapid"

	simrt "verif/sim/rt"
)

// Violation is a property violation found in one run.
type Violation struct {
	Class  string `json:"class"`
	Detail string `json:"detail"`
}

// Outcome is what one executed plan produced.
type Outcome struct {
	Violation    *Violation
	Inconclusive string // seam / watchdog / harness trouble: never a violation, never a pass
	TraceHash    uint64
	Nontrivial   bool
	SimTime      time.Duration
	SimSeconds   float64 // simulated time covered, when it is not the bubble's clock (e.g. an offset clock)
	Steps        int
	Counters     map[string]int64
	Trace        []simrt.Event
}

func (o *Outcome) Count(name string, n int64) {
	if o.Counters == nil {
		o.Counters = map[string]int64{}
	}
	o.Counters[name] += n
}

// Violate records the first violation of a run.
func (o *Outcome) Violate(class, format string, args ...any) {
	if o.Violation == nil {
		o.Violation = &Violation{Class: class, Detail: fmt.Sprintf(format, args...)}
	}
}

// Known describes a known finding: violations matching it are counted, not reported.
type Known struct {
	Key   string
	What  string
	Match func(plan any, out *Outcome) bool
}

// Harness is what a property's test package provides.
type Harness struct {
	Property    string
	Level       string // exploration | fault_enumeration
	Rule        string // how cases are generated and what makes one distinct and non-trivial
	Gen         func(t *rapid.T, tier string) any
	NewPlan     func() any
	Run         func(t *testing.T, plan any, keepTrace bool) *Outcome
	Known       []Known
	Components  map[string]string
	Assumptions []string
	// RequiredCounters must be non-zero over a whole worker run, else the
	// worker reports an inconclusive result (a seam is no longer reached).
	RequiredCounters []string
	// ManualGC turns the automatic collector off and collects every few hundred plans, but
	// never again once a violation was seen: code under test whose finalizers panic on leaked
	// objects (lockedfile.File) would otherwise kill the worker before it can shrink and
	// report the leak it has just detected.
	ManualGC bool
}

// Result is the worker's result file.
type Result struct {
	Property     string            `json:"property"`
	Worker       int               `json:"worker"`
	Seed         uint64            `json:"seed"`
	WorkerSeed   uint64            `json:"worker_seed"`
	Tier         string            `json:"tier"`
	Evaluations  int64             `json:"evaluations"`
	Nontrivial   int64             `json:"nontrivial"`
	HashFile     string            `json:"hash_file"`
	Counters     map[string]int64  `json:"counters"`
	SimTimeS     float64           `json:"sim_time_s"`
	Steps        int64             `json:"steps"`
	Batches      int               `json:"batches"`
	WallS        float64           `json:"wall_s"`
	Violations   []ViolationRecord `json:"violations"`
	KnownHits    map[string]int64  `json:"known_hits"`
	Inconclusive []string          `json:"inconclusive"`
	Samples      []json.RawMessage `json:"samples"`
	Replay       *ReplayResult     `json:"replay,omitempty"`
	Level        string            `json:"level"`
	Rule         string            `json:"rule"`
	Components   map[string]string `json:"components"`
	Assumptions  []string          `json:"assumptions"`
}

type ViolationRecord struct {
	Class  string `json:"class"`
	Detail string `json:"detail"`
	Replay string `json:"replay"`
}

type ReplayResult struct {
	Reproduced bool          `json:"reproduced"`
	Class      string        `json:"class"`
	Detail     string        `json:"detail"`
	SameTrace  bool          `json:"same_trace"`
	ViaSession bool          `json:"via_session,omitempty"` // reproduced only by re-running the worker session that led to it
	Known      string        `json:"known,omitempty"`
	TraceHash  string        `json:"trace_hash"`
	Trace      []simrt.Event `json:"trace,omitempty"`
}

// ReplayFile is the on-disk format of a failing plan.
type ReplayFile struct {
	Property  string          `json:"property"`
	Class     string          `json:"class"`
	Seed      uint64          `json:"seed"`
	Worker    int             `json:"worker"`
	Tier      string          `json:"tier"`
	Plan      json.RawMessage `json:"plan"`
	TraceHash string          `json:"trace_hash"`
	Trace     []simrt.Event   `json:"trace"`
	Violation Violation       `json:"violation"`
	// Session is the sequence of rapid batches (seeded from Seed, Worker and the batch number)
	// the worker process had executed when it met the violation. A violation that depends on
	// state the code under test keeps across runs of one process (package-level caches and
	// variables) does not recur when the plan alone is executed in a fresh process;
	// re-running the session does reproduce it.
	Session *Session `json:"session,omitempty"`
}

type Session struct {
	BatchSizes []int `json:"batch_sizes"`
}

type captureTB struct {
	name   string
	failed bool
	logs   []string
}

func (c *captureTB) Helper()      {}
func (c *captureTB) Name() string { return c.name }
func (c *captureTB) Logf(f string, a ...any) {
	if len(c.logs) < 50 {
		c.logs = append(c.logs, fmt.Sprintf(f, a...))
	}
}
func (c *captureTB) Log(a ...any)              { c.Logf("%s", fmt.Sprint(a...)) }
func (c *captureTB) Skipf(f string, a ...any)  {}
func (c *captureTB) Skip(a ...any)             {}
func (c *captureTB) SkipNow()                  {}
func (c *captureTB) Errorf(f string, a ...any) { c.failed = true; c.Logf(f, a...) }
func (c *captureTB) Error(a ...any)            { c.failed = true; c.Log(a...) }
func (c *captureTB) Fatalf(f string, a ...any) { c.failed = true; c.Logf(f, a...) }
func (c *captureTB) Fatal(a ...any)            { c.failed = true; c.Log(a...) }
func (c *captureTB) FailNow()                  { c.failed = true }
func (c *captureTB) Fail()                     { c.failed = true }
func (c *captureTB) Failed() bool              { return c.failed }

func envInt(name string, def int64) int64 {
	if v := os.Getenv(name); v != "" {
		n, err := strconv.ParseInt(v, 10, 64)
		if err == nil {
			return n
		}
	}
	return def
}

func mix(a, b uint64) uint64 {
	z := a + 0x9e3779b97f4a7c15*(b+1)
	z = (z ^ (z >> 30)) * 0xbf58476d1ce4e5b9
	z = (z ^ (z >> 27)) * 0x94d049bb133111eb
	z ^= z >> 31
	if z == 0 {
		z = 1
	}
	return z
}

// Main is the body of the single test function of a harness package.
func Main(t *testing.T, h *Harness) {
	tier := os.Getenv("VERIF_TIER")
	if tier == "" {
		tier = "quick"
	}
	seedStr := os.Getenv("VERIF_SEED")
	seed, _ := strconv.ParseUint(seedStr, 10, 64)
	worker := int(envInt("VERIF_WORKER", 0))
	budget := time.Duration(envInt("VERIF_BUDGET_MS", 5000)) * time.Millisecond
	maxRuns := envInt("VERIF_MAXRUNS", 0)
	outPath := os.Getenv("VERIF_OUT")
	replayDir := os.Getenv("VERIF_REPLAY_DIR")
	if replayDir == "" {
		replayDir = "."
	}
	res := &Result{Property: h.Property, Worker: worker, Seed: seed, Tier: tier,
		Counters: map[string]int64{}, KnownHits: map[string]int64{},
		Level: h.Level, Rule: h.Rule, Components: h.Components, Assumptions: h.Assumptions}
	start := time.Now()
	defer func() {
		res.WallS = time.Since(start).Seconds()
		if outPath != "" {
			data, _ := json.MarshalIndent(res, "", " ")
			if err := os.WriteFile(outPath, data, 0o644); err != nil {
				t.Fatalf("write result: %v", err)
			}
		}
	}()

	exec := func(plan any, keep bool) (out *Outcome) {
		defer func() {
			if r := recover(); r != nil {
				out = &Outcome{Inconclusive: fmt.Sprintf("harness panic: %v\n%s", r, debug.Stack())}
			}
		}()
		return h.Run(t, plan, keep)
	}
	matchKnown := func(plan any, out *Outcome) string {
		if os.Getenv("VERIF_REPLAY") == "" && os.Getenv("VERIF_IGNORE_KNOWN") != "" {
			return "" // development aid: produce a replay plan for a known finding
		}
		for _, k := range h.Known {
			if k.Match(plan, out) {
				return k.Key
			}
		}
		return ""
	}

	var session *Session
	var sessionTrace string
	if rp := os.Getenv("VERIF_REPLAY"); rp != "" {
		data, err := os.ReadFile(rp)
		if err != nil {
			res.Inconclusive = append(res.Inconclusive, "read replay: "+err.Error())
			return
		}
		var rf ReplayFile
		if err := json.Unmarshal(data, &rf); err != nil {
			res.Inconclusive = append(res.Inconclusive, "parse replay: "+err.Error())
			return
		}
		plan := h.NewPlan()
		if err := json.Unmarshal(rf.Plan, plan); err != nil {
			res.Inconclusive = append(res.Inconclusive, "parse plan: "+err.Error())
			return
		}
		out := exec(plan, true)
		res.Evaluations = 1
		if out.Inconclusive != "" {
			res.Inconclusive = append(res.Inconclusive, out.Inconclusive)
			return
		}
		rr := &ReplayResult{TraceHash: fmt.Sprintf("%016x", out.TraceHash)}
		if os.Getenv("VERIF_REPLAY_TRACE") != "" {
			rr.Trace = out.Trace
		}
		if out.Violation != nil {
			rr.Reproduced = out.Violation.Class == rf.Class
			rr.Class = out.Violation.Class
			rr.Detail = out.Violation.Detail
			rr.SameTrace = fmt.Sprintf("%016x", out.TraceHash) == rf.TraceHash
			rr.Known = matchKnown(plan, out)
		}
		res.Replay = rr
		if rr.Reproduced || rf.Session == nil || os.Getenv("VERIF_REPLAY_SESSION") == "0" {
			return
		}
		// the plan alone does not fail in a fresh process: re-run the session that led to it
		session = rf.Session
		sessionTrace = rf.TraceHash
		seed, worker, tier = rf.Seed, rf.Worker, rf.Tier
		res.Evaluations = 0
	}

	wseed := mix(seed, uint64(worker))
	res.WorkerSeed = wseed
	stopFile := os.Getenv("VERIF_STOPFILE")
	var traceLog *os.File
	if p := os.Getenv("VERIF_TRACELOG"); p != "" {
		traceLog, _ = os.Create(p)
		defer traceLog.Close()
	}
	hashes := map[uint64]struct{}{}
	var lastFailPlan json.RawMessage
	var lastFailOut *Outcome
	var inconclusive string
	searching := true

	if h.ManualGC {
		debug.SetGCPercent(-1)
	}
	violationSeen := false
	prop := func(rt *rapid.T) {
		if h.ManualGC && !violationSeen && res.Evaluations%300 == 299 {
			runtime.GC()
		}
		plan := h.Gen(rt, tier)
		out := exec(plan, false)
		if searching {
			if traceLog != nil {
				cl := "-"
				if out.Violation != nil {
					cl = out.Violation.Class
				}
				fmt.Fprintf(traceLog, "%d %016x %d %s %s\n", res.Evaluations, out.TraceHash, out.Steps, cl, out.Inconclusive)
			}
			res.Evaluations++
			res.SimTimeS += out.SimTime.Seconds() + out.SimSeconds
			res.Steps += int64(out.Steps)
			for k, v := range out.Counters {
				res.Counters[k] += v
			}
			if out.Nontrivial {
				res.Nontrivial++
				hashes[out.TraceHash] = struct{}{}
			}
			if len(res.Samples) < 3 || (res.Evaluations%997 == 0 && len(res.Samples) < 6) {
				if data, err := json.Marshal(plan); err == nil {
					res.Samples = append(res.Samples, data)
				}
			}
		}
		if out.Inconclusive != "" {
			if inconclusive == "" {
				inconclusive = out.Inconclusive
			}
			return // not a failure for rapid; the worker stops after this batch
		}
		if out.Violation != nil {
			violationSeen = true
			if key := matchKnown(plan, out); key != "" {
				if searching {
					res.KnownHits[key]++
				}
				return
			}
			data, err := json.Marshal(plan)
			if err != nil {
				panic("plan not serialisable: " + err.Error())
			}
			lastFailPlan = data
			lastFailOut = out
			searching = false
			rt.Fatalf("%s", out.Violation.Class)
		}
	}

	flag.Set("rapid.nofailfile", "true")
	if tier == "thorough" {
		flag.Set("rapid.shrinktime", "60s")
	} else {
		flag.Set("rapid.shrinktime", "15s")
	}
	batch := 0
	per := 20
	var batchSizes []int
	for {
		if session != nil {
			if batch >= len(session.BatchSizes) {
				break
			}
		} else if time.Since(start) >= budget || (maxRuns > 0 && res.Evaluations >= maxRuns) {
			break
		}
		if stopFile != "" && session == nil {
			if _, err := os.Stat(stopFile); err == nil {
				break
			}
		}
		batch++
		bs := mix(wseed, uint64(batch))
		flag.Set("rapid.seed", strconv.FormatUint(bs, 10))
		n := per
		if maxRuns > 0 && int64(n) > maxRuns-res.Evaluations {
			n = int(maxRuns - res.Evaluations)
		}
		if session != nil {
			n = session.BatchSizes[batch-1]
		}
		batchSizes = append(batchSizes, n)
		flag.Set("rapid.checks", strconv.Itoa(n))
		tb := &captureTB{name: h.Property}
		b0 := time.Now()
		e0 := res.Evaluations
		rapid.Check(tb, prop)
		if inconclusive != "" {
			res.Inconclusive = append(res.Inconclusive, inconclusive)
			break
		}
		if tb.failed {
			if lastFailOut == nil {
				res.Inconclusive = append(res.Inconclusive, "rapid failed without a recorded violation: "+strings.Join(tb.logs, " | "))
				break
			}
			// re-execute the minimal plan from its serialised form: the replay must be
			// a pure function of the plan.
			plan := h.NewPlan()
			if err := json.Unmarshal(lastFailPlan, plan); err != nil {
				res.Inconclusive = append(res.Inconclusive, "plan round trip: "+err.Error())
				break
			}
			out := exec(plan, true)
			if out.Inconclusive != "" {
				res.Inconclusive = append(res.Inconclusive, "re-execution: "+out.Inconclusive)
				break
			}
			if out.Violation == nil || out.Violation.Class != lastFailOut.Violation.Class || out.TraceHash != lastFailOut.TraceHash {
				got := "no violation"
				if out.Violation != nil {
					got = out.Violation.Class + ": " + out.Violation.Detail
				}
				res.Inconclusive = append(res.Inconclusive, fmt.Sprintf("NONDETERMINISM: minimal plan gave %q (trace %016x) then %q (trace %016x); plan=%s",
					lastFailOut.Violation.Class+": "+lastFailOut.Violation.Detail, lastFailOut.TraceHash, got, out.TraceHash, lastFailPlan))
				break
			}
			if session != nil {
				// The session's last batch failed again. The class of the *minimised* plan may differ from the
				// recorded one: shrinking is bounded by wall-clock time, and with state carried across plans
				// every shrink attempt changes what later attempts meet.
				res.Replay = &ReplayResult{Reproduced: true, Class: out.Violation.Class, Detail: out.Violation.Detail,
					SameTrace: fmt.Sprintf("%016x", out.TraceHash) == sessionTrace, ViaSession: true, Known: matchKnown(plan, out),
					TraceHash: fmt.Sprintf("%016x", out.TraceHash)}
				break
			}
			rf := ReplayFile{Property: h.Property, Class: out.Violation.Class, Seed: seed, Worker: worker, Tier: tier,
				Plan: lastFailPlan, TraceHash: fmt.Sprintf("%016x", out.TraceHash), Trace: out.Trace, Violation: *out.Violation,
				Session: &Session{BatchSizes: append([]int(nil), batchSizes...)}}
			data, _ := json.MarshalIndent(rf, "", " ")
			os.MkdirAll(replayDir, 0o755)
			name := filepath.Join(replayDir, fmt.Sprintf("%s-%d-w%d.json", sanitize(out.Violation.Class), seed, worker))
			if err := os.WriteFile(name, data, 0o644); err != nil {
				res.Inconclusive = append(res.Inconclusive, "write replay: "+err.Error())
				break
			}
			res.Violations = append(res.Violations, ViolationRecord{out.Violation.Class, out.Violation.Detail, name})
			if stopFile != "" {
				os.WriteFile(stopFile, []byte("violation"), 0o644)
			}
			break
		}
		// adapt the batch size to about one second (fixed size in self-tests, so that
		// two processes with the same seed execute the same plans)
		dt := time.Since(b0)
		if maxRuns > 0 {
			continue
		}
		if done := res.Evaluations - e0; done > 0 && dt > 0 {
			per = int(float64(done) * float64(time.Second) / float64(dt))
			if per < 10 {
				per = 10
			}
			if per > 4000 {
				per = 4000
			}
		}
	}
	res.Batches = batch
	if session != nil {
		return
	}
	if len(res.Violations) == 0 && len(res.Inconclusive) == 0 {
		for _, c := range h.RequiredCounters {
			if res.Counters[c] == 0 && res.Evaluations >= 50 {
				res.Inconclusive = append(res.Inconclusive, "required counter "+c+" stayed at zero: the seam it measures is not reached any more")
			}
		}
	}
	if outPath != "" {
		hs := make([]uint64, 0, len(hashes))
		for k := range hashes {
			hs = append(hs, k)
		}
		sort.Slice(hs, func(i, j int) bool { return hs[i] < hs[j] })
		buf := make([]byte, 8*len(hs))
		for i, v := range hs {
			binary.LittleEndian.PutUint64(buf[8*i:], v)
		}
		res.HashFile = outPath + ".hashes"
		os.WriteFile(res.HashFile, buf, 0o644)
	}
}

func sanitize(s string) string {
	var b strings.Builder
	for _, r := range s {
		if r >= 'a' && r <= 'z' || r >= 'A' && r <= 'Z' || r >= '0' && r <= '9' || r == '-' || r == '_' {
			b.WriteRune(r)
		} else {
			b.WriteByte('_')
		}
	}
	return b.String()
}

// Panics turns panics that escaped simulated tasks into a verdict: a panic
// raised from harness code is a defect of the harness (inconclusive, exit 2),
// any other panic (code under test, or a shim objecting to how the code under
// test used it) is a violation of class "panic".
func Panics(out *Outcome, panics []string) {
	for _, p := range panics {
		lines := strings.Split(p, "\n")
		first := ""
		for i, l := range lines {
			if strings.HasPrefix(l, "panic(") {
				// frames are "func(args)" then "\tfile:line"; the next function line follows
				for j := i + 2; j < len(lines); j += 2 {
					if !strings.HasPrefix(lines[j], "runtime.") {
						first = lines[j]
						break
					}
				}
				break
			}
		}
		if strings.HasPrefix(first, "verif/harness/") {
			if out.Inconclusive == "" {
				out.Inconclusive = "harness panic: " + p
			}
			continue
		}
		out.Violate("panic", "%s", p)
	}
}
