// Package simsys replaces syscall.Flock in rewritten code under test.
package simsys

import simos "verif/sim/os"

// Calls counts intercepted flock calls (fail-closed seam counter).
var Calls int64

func Flock(fd int, how int) error {
	Calls++
	return simos.Flock(fd, how)
}
