// Package gen holds rapid generators shared by the harnesses.
package gen

import (
	"pgregory.net/rapid"

	simrt "verif/sim/rt"
)

// Sched draws a schedule description. horizon is a rough upper bound on the
// number of decisions of a run (pct change points are drawn below it).
func Sched(t *rapid.T, horizon int) simrt.Sched {
	s := simrt.Sched{Seed: rapid.Uint64().Draw(t, "schedseed")}
	switch rapid.IntRange(0, 4).Draw(t, "policy") {
	case 3, 4:
		s.Policy = "preempt"
		s.Points = rapid.SliceOfN(rapid.IntRange(0, horizon/4), 0, 3).Draw(t, "points")
	case 0:
		s.Policy = "pct"
		s.Changes = rapid.SliceOfN(rapid.IntRange(0, horizon), 0, 4).Draw(t, "changes")
	case 1:
		s.Policy = "random"
	default:
		s.Policy = "sticky"
		s.Stick = rapid.SampledFrom([]int{50, 80, 95}).Draw(t, "stick")
	}
	return s
}
