module verif

go 1.25

require (
	github.com/anishathalye/porcupine v1.3.0
	github.com/rogpeppe/go-internal v0.0.0
	pgregory.net/rapid v1.3.0
)

replace github.com/rogpeppe/go-internal => /repo
