module verif

go 1.25

require (
	github.com/anishathalye/porcupine v1.3.0
	github.com/rogpeppe/go-internal v0.0.0
	pgregory.net/rapid v1.3.0
)

require (
	golang.org/x/mod v0.21.0 // indirect
	golang.org/x/tools v0.26.0 // indirect
)

replace github.com/rogpeppe/go-internal => /repo
