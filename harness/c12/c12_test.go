// Package c12 decides C12: an interrupted or failing Put leaves the cache
// consistent. Each file-operation boundary inside Put can fail, write short
// and fail, or be the point where the simulated process halts (before, after,
// or in the middle of the operation); the source reader can fail, end early,
// or change between passes. After a "restart" the safety clauses of the
// statement are checked on every id, and a fault-free retry must succeed.
package c12

import (
	"bytes"
	"crypto/sha256"
	"fmt"
	"os"
	"syscall"
	"testing"
	"time"

	"github.com/rogpeppe/go-internal/cache"
	"pgregory.net/rapid"

	"verif/harness/cachekit"
	simcheck "verif/sim/check"
	"verif/sim/gen"
	simos "verif/sim/os"
	simrt "verif/sim/rt"
	simtime "verif/sim/time"
)

type PutStep struct {
	ID      int `json:"id"`
	Content int `json:"content"`
}

type FaultSpec struct {
	Kind string `json:"kind"` // op | reader | none
	// op faults
	K      int    `json:"k,omitempty"`      // index of the file operation inside the target Put (taken modulo the dry-run count)
	Action string `json:"action,omitempty"` // error short halt-before halt-after short-halt
	Errno  string `json:"errno,omitempty"`
	Frac   int    `json:"frac,omitempty"` // short writes: permille of the transfer delivered
	Grown  bool   `json:"grown,omitempty"` // ... and the source (a reader) has changed and grown between the hashing pass and the copying pass
	// reader faults
	RKind string `json:"rkind,omitempty"` // seek-error read-error early-eof flip longer eof-with-data
	Pass  int    `json:"pass,omitempty"`
	Call  int    `json:"call,omitempty"` // read call (modulo the dry-run count)
	Off   int    `json:"off,omitempty"`  // byte offset / count (modulo size)
}

type Plan struct {
	Sizes     []int       `json:"sizes"`
	Pre       []PutStep   `json:"pre"`
	PreDamage string      `json:"pre_damage,omitempty"` // same-size | shorter | longer (applied to the target's output file)
	Trimmed   bool        `json:"trimmed,omitempty"`    // the target's output file is absent although index entries name it (the state a Trim can leave: not damage)
	AgeHours  int         `json:"age_hours,omitempty"` // simulated time that passes between the earlier Puts and the target Put
	Target    PutStep     `json:"target"`
	Via       string      `json:"via"` // bytes | reader
	NoVerify  bool        `json:"no_verify,omitempty"`
	SameSubdir bool       `json:"same_subdir,omitempty"` // the target's output file lives in the cache subdirectory that holds another id's index entry // the reader goes in through PutNoVerify
	Chunk     int         `json:"chunk"`
	All       bool        `json:"all,omitempty"` // enumerate the whole fault space of this shape instead of the single Fault
	Fault     FaultSpec   `json:"fault"`
	Reader    bool        `json:"reader,omitempty"`    // a second process looks entries up while the faulted Put runs
	Companion bool        `json:"companion,omitempty"` // a healthy process stores the same content under another id while the faulted Put runs
	Sched     simrt.Sched `json:"sched"`
}

const nIDs = 3

var actions = []string{"error", "short", "halt-before", "halt-after", "short-halt"}
var rkinds = []string{"seek-error", "read-error", "early-eof", "flip", "longer", "eof-with-data", "flip-onward"}

func genPlan(t *rapid.T, tier string) any {
	p := &Plan{}
	nc := rapid.IntRange(1, 3).Draw(t, "ncontents")
	for i := 0; i < nc; i++ {
		p.Sizes = append(p.Sizes, rapid.SampledFrom([]int{0, 1, 2, 100, 5000, 40000, 70000}).Draw(t, "size"))
	}
	if rapid.IntRange(0, 11).Draw(t, "huge") == 0 {
		// now and then one output of several hundred kilobytes (many copy-buffer loads)
		p.Sizes[rapid.IntRange(0, nc-1).Draw(t, "hugeidx")] = rapid.SampledFrom([]int{300000, 800000, 1100000}).Draw(t, "hugesize")
	}
	np := rapid.IntRange(0, 3).Draw(t, "npre")
	for i := 0; i < np; i++ {
		p.Pre = append(p.Pre, PutStep{rapid.IntRange(0, nIDs-1).Draw(t, "preid"), rapid.IntRange(0, nc-1).Draw(t, "precontent")})
	}
	p.Target = PutStep{rapid.IntRange(0, nIDs-1).Draw(t, "id"), rapid.IntRange(0, nc-1).Draw(t, "content")}
	switch rapid.IntRange(0, 5).Draw(t, "predamage") {
	case 0:
		p.PreDamage = rapid.SampledFrom([]string{"same-size", "shorter", "longer", "shorter-wrong"}).Draw(t, "damagekind")
	case 1, 2:
		// an index entry of another id (or an older one of this id) already names the
		// target's output, whose data file is gone
		p.Trimmed = true
		p.Pre = append(p.Pre, PutStep{rapid.IntRange(0, nIDs-1).Draw(t, "trimid"), p.Target.Content})
	}
	// the cache is not always freshly written: the earlier entries may be hours, days or years old
	p.AgeHours = rapid.SampledFrom([]int{0, 0, 0, 2, 25, 4 * 24, 5*24 + 2, 6 * 24, 400 * 24}).Draw(t, "agehours")
	p.Via = rapid.SampledFrom([]string{"bytes", "reader", "reader"}).Draw(t, "via")
	p.Chunk = rapid.SampledFrom([]int{1, 100, 4096, 1 << 20}).Draw(t, "chunk")
	p.NoVerify = rapid.IntRange(0, 3).Draw(t, "noverify") == 0
	if rapid.IntRange(0, 5).Draw(t, "samesubdir") == 0 {
		// real caches hold thousands of files per subdirectory: the output being written has neighbours
		p.SameSubdir = true
		p.Pre = append(p.Pre, PutStep{(p.Target.ID + 1) % nIDs, rapid.IntRange(0, nc-1).Draw(t, "neighbourcontent")})
	}
	if tier == "thorough" && rapid.IntRange(0, 9).Draw(t, "all") == 0 {
		p.All = true
	}
	f := FaultSpec{}
	switch k := rapid.IntRange(0, 9).Draw(t, "faultkind"); {
	case k <= 6:
		f.Kind = "op"
		f.K = rapid.IntRange(0, 63).Draw(t, "k")
		f.Action = rapid.SampledFrom(actions).Draw(t, "action")
		f.Errno = rapid.SampledFrom([]string{"EIO", "ENOSPC", "EDQUOT"}).Draw(t, "errno")
		f.Frac = rapid.SampledFrom([]int{0, 1, 250, 500, 700, 800, 900, 999}).Draw(t, "frac")
		if rapid.IntRange(0, 5).Draw(t, "grown") == 0 {
			f.Grown = true
			p.Via = "reader"
			f.Off = rapid.IntRange(0, 70000).Draw(t, "grownoff")
		}
	default:
		f.Kind = "reader"
		p.Via = "reader"
		f.RKind = rapid.SampledFrom(rkinds).Draw(t, "rkind")
		f.Pass = rapid.IntRange(1, 2).Draw(t, "pass")
		f.Call = rapid.IntRange(0, 63).Draw(t, "call")
		f.Off = rapid.IntRange(0, 70000).Draw(t, "off")
	}
	p.Fault = f
	if tier == "thorough" && rapid.IntRange(0, 3).Draw(t, "reader") == 0 {
		p.Reader = true
	}
	if rapid.IntRange(0, 4).Draw(t, "companion") == 0 {
		p.Companion = true
	}
	p.Sched = gen.Sched(t, 200)
	return p
}

type env struct {
	p        *Plan
	out      *simcheck.Outcome
	s        *simrt.Sim
	dir      string
	contents [][]byte
	outIDs   []cache.OutputID
	before   []int  // content stored under each id before the target Put (-1: none)
	readable []bool // id was readable exactly (GetBytes) just before the target Put
	proc     int
	lastProc int // the simulated process of the latest target Put
}

// verifyAll applies the safety clauses of the statement to every id.
func (e *env) verifyAll(c *cache.Cache, when string, checkUnrelated bool) {
	p, out := e.p, e.out
	targetOut := e.outIDs[p.Target.Content]
	if e.readable == nil {
		e.readable = make([]bool, nIDs)
	}
	for i := 0; i < nIDs; i++ {
		id := cachekit.ActionID(i)
		data, ent, err := c.GetBytes(id)
		if err == nil {
			// the statement promises the hash, not the size field: an index entry torn by a halt in the middle
			// of its write can legitimately pair the new output with the old entry's size
			if sha256.Sum256(data) != ent.OutputID {
				out.Violate("bad-bytes", "%s: GetBytes(id%d) returned %d bytes that do not hash to the reported OutputID %x", when, i, len(data), ent.OutputID[:4])
			}
		}
		file, fent, ferr := c.GetFile(id)
		if ferr == nil {
			got, rerr := os.ReadFile(file)
			if rerr != nil || int64(len(got)) != fent.Size {
				out.Violate("bad-file", "%s: GetFile(id%d) named a file of %d bytes (read error %v), reported size %d", when, i, len(got), rerr, fent.Size)
			} else if p.PreDamage == "" && !p.Companion && sha256.Sum256(got) != fent.OutputID {
				out.Violate("bad-file", "%s: GetFile(id%d) named a file of the reported size %d whose content does not hash to the reported OutputID %x (cache was undamaged before the Put)", when, i, fent.Size, fent.OutputID[:4])
			}
		}
		if p.Companion && i == (p.Target.ID+1)%nIDs {
			continue // legitimately overwritten by the companion writer
		}
		if checkUnrelated && i != p.Target.ID && e.before[i] >= 0 && e.readable[i] {
			if err != nil || !bytes.Equal(data, e.contents[e.before[i]]) {
				same := ""
				if e.outIDs[e.before[i]] == targetOut {
					same = " (it shares the output of the failed Put)"
				}
				out.Violate("unrelated-lost", "%s: entry id%d was readable before the Put and is no longer readable exactly%s: %v", when, i, same, err)
			}
		}
	}
}

type attempt struct {
	opFault *simos.Fault
	reader  *cachekit.ChunkReader
	label   string
	proc    int                         // >0: run in this (existing) simulated process instead of a fresh one
	remake  func() *cachekit.ChunkReader // a fresh source reader with the same fault, for repeating the attempt
}

// runPut performs the target Put in a fresh simulated process, with the given
// fault armed. It reports (returned error, halted).
func (e *env) runPut(a attempt) (err error, halted bool, finished bool) {
	p := e.p
	proc := a.proc
	if proc == 0 {
		e.proc++
		proc = e.proc
	}
	e.lastProc = proc
	if a.opFault != nil {
		f := *a.opFault
		f.Proc = proc
		simos.Arm([]simos.Fault{f})
	}
	doneW, doneR := false, !p.Reader || a.label == "dry" || a.proc > 0
	doneC := !p.Companion || a.label == "dry" || a.proc > 0
	if !doneC {
		e.proc++
		cp := e.proc
		e.s.Go("companion", cp, func() {
			defer func() { doneC = true }()
			c, oerr := cache.Open(e.dir)
			if oerr != nil {
				return
			}
			data := e.contents[p.Target.Content]
			// a healthy writer of the same output under another id, fed in chunks so that it overlaps
			if _, _, err := c.Put(cachekit.ActionID((p.Target.ID+1)%nIDs), &cachekit.ChunkReader{Data: data, Chunk: max(e.p.Chunk, len(data)/8)}); err == nil {
				e.out.Count("companion_puts_completed", 1)
			}
		})
	}
	e.s.Go("writer", proc, func() {
		defer func() {
			doneW = true
			if r := recover(); r != nil {
				if _, ok := r.(simos.Halt); ok {
					halted = true
				}
				panic(r)
			}
		}()
		c, oerr := cache.Open(e.dir)
		if oerr != nil {
			err = oerr
			finished = true
			return
		}
		id := cachekit.ActionID(p.Target.ID)
		if a.reader != nil && p.NoVerify {
			_, _, err = c.PutNoVerify(id, a.reader)
		} else if a.reader != nil {
			_, _, err = c.Put(id, a.reader)
		} else {
			err = c.PutBytes(id, e.contents[p.Target.Content])
		}
		finished = true
	})
	if !doneR {
		e.proc++
		rp := e.proc
		e.s.Go("reader", rp, func() {
			defer func() { doneR = true }()
			c, oerr := cache.Open(e.dir)
			if oerr != nil {
				return
			}
			for n := 0; n < 6 && !doneW; n++ {
				e.verifyAll(c, "lookup concurrent with the faulted Put ("+a.label+")", false)
				e.out.Count("concurrent_lookup_rounds", 1)
			}
		})
	}
	simrt.Block("join", func() bool { return doneW && doneR && doneC })
	simos.Disarm()
	return
}

func (e *env) reader(spec *FaultSpec, m int) *cachekit.ChunkReader {
	data := e.contents[e.p.Target.Content]
	r := &cachekit.ChunkReader{Data: data, Chunk: max(e.p.Chunk, len(data)/24)}
	if spec == nil {
		return r
	}
	size := len(data)
	switch spec.RKind {
	case "seek-error":
		r.FailSeekAt = spec.Pass
	case "read-error":
		if m > 0 {
			r.FailReadAt = spec.Call%m + 1
		} else {
			r.FailReadAt = 1
		}
		r.FailAfter = spec.Off % (r.Chunk + 1)
	case "early-eof":
		r.EOFAtPass = spec.Pass
		r.EOFShort = 1
		if size > 0 {
			r.EOFShort = spec.Off%size + 1
		}
	case "flip", "flip-onward":
		r.FlipOnward = spec.RKind == "flip-onward"
		r.FlipAtPass = spec.Pass
		if size > 0 {
			switch spec.Call % 4 {
			case 0:
				r.FlipOff = 0
			case 1:
				r.FlipOff = size - 1
			case 2:
				r.FlipOff = size / 2
			default:
				r.FlipOff = spec.Off % size
			}
		}
	case "grown":
		// the file was rewritten and is longer by the time it is copied
		r.FlipAtPass, r.FlipOnward = 2, true
		if size > 0 {
			r.FlipOff = spec.Off % size
		}
		r.ExtraPass = 2
		r.ExtraBytes = spec.Off%100 + 1
	case "longer":
		r.ExtraPass = spec.Pass
		r.ExtraBytes = spec.Off%100 + 1
	case "eof-with-data":
		r.EOFWithData = true
	}
	return r
}

// wallSeconds reads the real clock (time.Now is the simulated one inside a bubble).
func wallSeconds() int64 {
	var tv syscall.Timeval
	syscall.Gettimeofday(&tv)
	return tv.Sec
}

func run(t *testing.T, plan any, keep bool) *simcheck.Outcome {
	p := plan.(*Plan)
	out := &simcheck.Outcome{}
	dir := cachekit.Dir()
	cachekit.Wipe(dir)
	simos.Reset()
	simtime.Reset()
	simos.SetReadChunk(4096)
	e := &env{p: p, out: out, dir: dir}
	for i, sz := range p.Sizes {
		e.contents = append(e.contents, cachekit.Content(i+1, sz))
		e.outIDs = append(e.outIDs, cachekit.OutputID(e.contents[i]))
	}
	if tc := p.Target.Content; p.SameSubdir && len(e.contents[tc]) > 0 && len(e.contents[tc]) <= 5000 {
		// pick target bytes whose output id starts with the byte the neighbouring id's index entry is filed under
		want := cachekit.ActionID((p.Target.ID + 1) % nIDs)[0]
		for seed := 7000; seed < 7000+20000; seed++ {
			c := cachekit.Content(seed, len(e.contents[tc]))
			if o := cachekit.OutputID(c); o[0] == want {
				e.contents[tc], e.outIDs[tc] = c, o
				out.Count("shape_output_shares_subdirectory_with_another_entry", 1)
				break
			}
		}
	}
	e.before = []int{-1, -1, -1}
	e.readable = make([]bool, nIDs)
	faultPoints, fired := 0, 0

	rep := simrt.Run(t, simrt.Options{Sched: p.Sched, Strict: true, MaxSteps: 400000, KeepTrace: keep}, func(s *simrt.Sim) {
		e.s = s
		c, err := cache.Open(dir)
		if err != nil {
			out.Inconclusive = "cache.Open: " + err.Error()
			return
		}
		for _, ps := range p.Pre {
			if err := c.PutBytes(cachekit.ActionID(ps.ID), e.contents[ps.Content]); err != nil {
				out.Inconclusive = "setup Put failed: " + err.Error()
				return
			}
			e.before[ps.ID] = ps.Content
		}
		tdata := e.contents[p.Target.Content]
		tpath := cachekit.DataPath(dir, e.outIDs[p.Target.Content])
		switch p.PreDamage {
		case "same-size":
			if len(tdata) > 0 {
				os.WriteFile(tpath, cachekit.Content(777, len(tdata)), 0o666)
			}
		case "shorter":
			if len(tdata) > 0 {
				os.WriteFile(tpath, tdata[:len(tdata)/2], 0o666)
			}
		case "longer":
			os.WriteFile(tpath, append(append([]byte(nil), tdata...), "tail"...), 0o666)
		case "shorter-wrong":
			if len(tdata) > 1 {
				os.WriteFile(tpath, cachekit.Content(778, len(tdata)/2), 0o666)
			}
		}
		if p.Trimmed {
			os.Remove(tpath)
			out.Count("shape_output_trimmed_away", 1)
		}
		for i := 0; i < nIDs; i++ {
			if e.before[i] >= 0 {
				data, _, err := c.GetBytes(cachekit.ActionID(i))
				e.readable[i] = err == nil && bytes.Equal(data, e.contents[e.before[i]])
			}
		}
		// time passes only now: the lookups above count as uses and would make every file young again
		if p.AgeHours > 0 {
			simtime.Advance(time.Duration(p.AgeHours) * time.Hour)
			out.Count("shape_aged_cache", 1)
		}
		snap := cachekit.Snapshot(dir)
		mt := simos.SnapshotMtimes()
		rewind := func() {
			cachekit.Restore(dir, snap)
			simos.RestoreMtimes(mt)
		}

		// dry run: count the file operations (N) and reader calls (M) of the target Put
		simos.StartLog()
		dry := attempt{label: "dry"}
		if p.Via == "reader" {
			dry.reader = e.reader(nil, 0)
		}
		derr, _, _ := e.runPut(dry)
		log := simos.StopLog()
		var ops []simos.OpRec
		for _, o := range log {
			if o.Proc == e.proc {
				ops = append(ops, o)
			}
		}
		if derr != nil {
			out.Violate("put-error", "fault-free Put failed: %v", derr)
			return
		}
		// the fault-free Put itself must have stored the data (also over a pre-damaged output)
		if c3, err := cache.Open(dir); err == nil {
			if data, _, err := c3.GetBytes(cachekit.ActionID(p.Target.ID)); err != nil || !bytes.Equal(data, tdata) {
				out.Violate("put-did-not-store", "fault-free Put returned nil but GetBytes gives %v (%d bytes, want %d); pre-damage %q", err, len(data), len(tdata), p.PreDamage)
				return
			}
		}
		n := len(ops)
		m := 0
		if dry.reader != nil {
			m = dry.reader.Calls
		}
		if n == 0 {
			out.Inconclusive = "no file operation of the target Put was intercepted"
			return
		}
		out.Count("dry_run_file_ops", int64(n))

		// the fault(s) to inject
		var atts []attempt
		mkOp := func(k int, action, errno string, frac int) attempt {
			k = k % n
			f := &simos.Fault{Nth: k, Action: action, Errno: errno}
			if action == "short" || action == "short-halt" {
				f.Short = ops[k].Bytes * frac / 1000
			}
			a := attempt{opFault: f, label: fmt.Sprintf("op %d/%d %s:%s %s", k, n, ops[k].Op, ops[k].Class, action)}
			if p.Via == "reader" {
				a.reader = e.reader(nil, 0)
			}
			return a
		}
		grown := func(a attempt, off int) attempt {
			sp := FaultSpec{Kind: "reader", RKind: "grown", Off: off}
			a.reader = e.reader(&sp, m)
			a.label += " with a source that changed and grew"
			return a
		}
		if p.All {
			for k := 0; k < n; k++ {
				for _, act := range actions {
					if (act == "short" || act == "short-halt") && ops[k].Bytes < 2 {
						continue
					}
					atts = append(atts, mkOp(k, act, "EIO", 500))
					if p.Via == "reader" && (act == "halt-before" || act == "halt-after") {
						atts = append(atts, grown(mkOp(k, act, "EIO", 500), p.Fault.Off+k))
					}
				}
			}
			if p.Via == "reader" {
				for _, rk := range rkinds {
					for pass := 1; pass <= 2; pass++ {
						for call := 0; call < max(m, 1) && call < 6; call++ {
							spec := FaultSpec{Kind: "reader", RKind: rk, Pass: pass, Call: call, Off: p.Fault.Off + 7*call}
							sp := spec
							atts = append(atts, attempt{reader: e.reader(&sp, m), label: fmt.Sprintf("reader %s pass %d call %d", rk, pass, call), remake: func() *cachekit.ChunkReader { return e.reader(&sp, m) }})
							if rk != "read-error" && rk != "flip" && rk != "flip-onward" {
								break
							}
						}
					}
				}
			}
		} else if p.Fault.Kind == "op" {
			a := mkOp(p.Fault.K, p.Fault.Action, p.Fault.Errno, p.Fault.Frac)
			// (a changed source is combined with halts only: the process dying while it copies a file that changed
			// is one story; a changed source plus an unrelated I/O error are two independent failures, and the
			// statement quantifies over single ones)
			if p.Fault.Grown && p.Via == "reader" && (p.Fault.Action == "halt-before" || p.Fault.Action == "halt-after") {
				a = grown(a, p.Fault.Off)
			}
			atts = append(atts, a)
		} else if p.Fault.Kind == "reader" {
			atts = append(atts, attempt{reader: e.reader(&p.Fault, m), label: fmt.Sprintf("reader %s pass %d", p.Fault.RKind, p.Fault.Pass), remake: func() *cachekit.ChunkReader { return e.reader(&p.Fault, m) }})
		}

		wall0 := wallSeconds()
		for ai, a := range atts {
			if p.All && ai > 0 && wallSeconds()-wall0 > 120 {
				// (a real-time guard, outside the simulation: a long enumeration on a loaded machine is cut, counted
				// and never mistaken for coverage; violations found before the cut replay as usual)
				out.Count("enumerations_cut_short_after_120s_wall", 1)
				out.Count("enumeration_attempts_not_run", int64(len(atts)-ai))
				break
			}
			rewind()
			faultPoints++
			perr, halted, finished := e.runPut(a)
			didFire := halted || perr != nil
			if a.reader != nil && len(a.reader.Fired) > 0 {
				didFire = true
				for k, v := range a.reader.Fired {
					out.Count("fired_"+k, int64(v))
				}
			}
			if a.opFault != nil {
				didFire = true // armed at an index below the dry-run count, so it is reached unless an earlier error ended the Put
			}
			if didFire {
				fired++
			}
			if halted {
				out.Count("outcome_halted", 1)
			} else if perr != nil {
				out.Count("outcome_put_error", 1)
			} else {
				out.Count("outcome_put_returned_nil", 1)
			}
			// A process that keeps going after failed Puts must not pile up resources: the same failing Put
			// twice more in that process leaves no more descriptors open than the first failure did.
			if perr != nil && !halted && !p.Companion && !p.Reader && (a.reader == nil || a.remake != nil) {
				proc := e.lastProc
				open1 := simos.OpenCount(proc)
				for rep := 0; rep < 2; rep++ {
					b := attempt{opFault: a.opFault, label: a.label + " (repeated)", proc: proc}
					if a.remake != nil {
						b.reader = a.remake()
					}
					if _, h2, _ := e.runPut(b); h2 {
						break
					}
				}
				if open3 := simos.OpenCount(proc); open3 > open1 {
					out.Violate("descriptor-leak", "after %s: the process held %d open descriptors after the first failed Put and %d after two more identical failures: every failed Put leaks", a.label, open1, open3)
				}
				out.Count("failed_puts_repeated_in_one_process", 1)
			}
			// One long-lived handle: the failing Put again, then the same content stored successfully under
			// another id, then a Put of other content that fails. The entry stored in between is unrelated to
			// either failure and must stay readable.
			restore := func() {}
			if perr != nil && !halted && !p.Companion && !p.Reader && a.remake != nil && len(e.contents) > 1 {
				yi := (p.Target.Content + 1) % len(e.contents)
				if e.outIDs[yi] != e.outIDs[p.Target.Content] && len(e.contents[yi]) > 0 {
					id2 := (p.Target.ID + 1) % nIDs
					done := false
					var err2, err3 error
					err2 = fmt.Errorf("not run")
					e.s.Go("longlived", e.lastProc, func() {
						defer func() { done = true }()
						c, oerr := cache.Open(dir)
						if oerr != nil {
							return
						}
						if p.NoVerify {
							c.PutNoVerify(cachekit.ActionID(p.Target.ID), a.remake())
						} else {
							c.Put(cachekit.ActionID(p.Target.ID), a.remake())
						}
						err2 = c.PutBytes(cachekit.ActionID(id2), tdata)
						y := e.contents[yi]
						_, _, err3 = c.Put(cachekit.ActionID(p.Target.ID), &cachekit.ChunkReader{Data: y, Chunk: max(e.p.Chunk, len(y)/8), FlipAtPass: 2, FlipOnward: true, FlipOff: len(y) / 2})
					})
					simrt.Block("join", func() bool { return done })
					if err2 == nil {
						b0, r0 := e.before[id2], e.readable[id2]
						e.before[id2], e.readable[id2] = p.Target.Content, true
						restore = func() { e.before[id2], e.readable[id2] = b0, r0 }
						out.Count("fail_store_fail_sequences_on_one_handle", 1)
						if err3 != nil {
							out.Count("fail_store_fail_second_failure_fired", 1)
						}
					}
				}
			}
			// "restart": a fresh handle on the directory, in the surviving process
			c2, err := cache.Open(dir)
			if err != nil {
				out.Inconclusive = "re-open: " + err.Error()
				return
			}
			when := "after " + a.label
			e.verifyAll(c2, when, true)
			restore()
			if finished && perr == nil && p.PreDamage == "" && a.opFault != nil {
				// acknowledged: must read back exactly
				if data, _, err := c2.GetBytes(cachekit.ActionID(p.Target.ID)); err != nil || !bytes.Equal(data, tdata) {
					out.Violate("acked-put-lost", "%s: Put returned nil but GetBytes gives %v (%d bytes)", when, err, len(data))
				}
			}
			// recovery: the same Put without faults succeeds and reads back
			if err := c2.PutBytes(cachekit.ActionID(p.Target.ID), tdata); err != nil {
				out.Violate("no-recovery", "%s: repeating the Put without faults fails: %v", when, err)
			} else {
				data, _, err := c2.GetBytes(cachekit.ActionID(p.Target.ID))
				if err != nil || !bytes.Equal(data, tdata) {
					out.Violate("no-recovery", "%s: after repeating the Put without faults GetBytes gives %v (%d bytes, want %d)", when, err, len(data), len(tdata))
				}
				file, _, err := c2.GetFile(cachekit.ActionID(p.Target.ID))
				if err != nil {
					out.Violate("no-recovery", "%s: after repeating the Put without faults GetFile fails: %v", when, err)
				} else if got, _ := os.ReadFile(file); !bytes.Equal(got, tdata) {
					out.Violate("no-recovery", "%s: after repeating the Put without faults the file named by GetFile differs from the data", when)
				}
			}
			if out.Violation != nil {
				return
			}
		}
	})
	out.TraceHash, out.Steps, out.SimTime, out.Trace = rep.TraceHash, rep.Steps, rep.SimTime, rep.Trace
	simcheck.Panics(out, rep.Panics)
	if rep.Deadlock {
		out.Violate("deadlock", "no task can run: %s", rep.DescribeBlocked())
	}
	if rep.StepCap {
		out.Inconclusive = "step cap: " + rep.DescribeBlocked()
	}
	out.Nontrivial = fired > 0
	if d := simtime.Offset().Seconds(); d > 0 {
		out.SimSeconds = d
	}
	out.Count("fault_points_executed", int64(faultPoints))
	out.Count("halts", int64(rep.Halts))
	_, firedKinds := simos.Counters()
	for k, v := range firedKinds {
		out.Count("fired_"+k, v)
	}
	if p.All {
		out.Count("shapes_enumerated_completely", 1)
	}
	if p.PreDamage != "" {
		out.Count("shape_predamage_"+p.PreDamage, 1)
	}
	return out
}

var harness = &simcheck.Harness{
	Property: "C12",
	Level:    "fault_enumeration",
	Rule: "a scenario shape (contents of 0 bytes to 1.1 MB, 0-3 prior Puts, 0 hours to 400 days of simulated time between them and the target Put, target id/content, optional pre-damage of the target's output file (same size / shorter / longer / shorter with wrong bytes) or an output that was trimmed away while index entries still name it, PutBytes, Put or PutNoVerify of a chunking ReadSeeker with Len and Size, optionally a healthy companion process storing the same content) is drawn by rapid; a fault-free dry run " +
		"counts the N file operations and M reader calls of the target Put; then one fault is injected (operation k fails / writes short and fails / process halts before / after / in the middle of it; " +
		"or the reader fails to seek, fails mid-read, ends early, flips a byte in one pass or from one pass onward, grows in one pass, returns data with EOF; or the process halts before / after an operation while the source has changed and grown between the passes); after a failed reader Put the same handle fails again, stores the content under another id, and fails a Put of other content, or - thorough, a tenth of the shapes - the whole " +
		"(operation x action), (halt x changed-and-grown source) and reader fault space (cut after 120 s of real time) of the shape is executed to completion; every attempt starts from the same rewound disk state; thorough adds a concurrent reader process; " +
		"non-trivial = the fault fired; distinct by decision-trace hash",
	Gen:     genPlan,
	NewPlan: func() any { return &Plan{} },
	Run:     run,
	Components: map[string]string{
		"cache, lockedfile, filelock": "real code from /repo's working tree, recompiled with substituted imports",
		"file system":                 "real kernel file system; every operation of Put goes through verif/sim/os, where it can fail, be cut short, or be the halt point",
		"process crash":               "simulated: halt = descriptors closed, every later operation of that process is a no-op, state on disk is what completed operations left (process crash, not power loss)",
		"source reader":               "stub io.ReadSeeker with injectable misbehaviour",
	},
	Assumptions: []string{
		"crash model is a process crash at a file-operation boundary or in the middle of one write (short write); no power-loss / lost-write model (the code never syncs, the statement does not ask)",
		"'unrelated entry' = an entry of another action id that was readable exactly just before the failing Put (including one that shares the Put's output); the target id's own previous entry is not asserted",
		"an output file that is absent while index entries still name it is a regular state (Trim leaves it), not damage: the GetFile content clause applies to it",
		"real SIGKILL of real writer processes is replaced by the halt model so that the kill point is seed-determined",
		"with a concurrent healthy writer of the same output (companion) only the checksum-verified and size clauses are asserted: a failing writer's truncate racing with another writer's copy is outside the statement's quantifier (single Put) and can leave a right-size file with wrong content that only GetBytes rejects",
	},
	RequiredCounters: []string{"fault_points_executed", "dry_run_file_ops", "outcome_put_error", "outcome_halted"},
}

func TestSim(t *testing.T) { simcheck.Main(t, harness) }
