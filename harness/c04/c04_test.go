// Package c04 decides C04: testscript runs are isolated from each other and
// leave nothing behind. A batch of generated scripts that all use the same
// relative names runs under one RunT with every file / environment / atomic /
// once-cache operation of the parallel subtests as scheduler decisions; each
// script is then run alone and must give the same verdict, log, probe records,
// deferred-call order and final tree. End-of-run invariants (no live or
// unreaped child, work directories removed or retained as requested, private
// GOTMPDIR empty, host variables invisible) are checked directly.
package c04

import (
	"crypto/sha256"
	"fmt"
	"os"
	"path/filepath"
	"regexp"
	"sort"
	"strings"
	"testing"
	"time"

	"github.com/rogpeppe/go-internal/testscript"
	"pgregory.net/rapid"

	"verif/harness/tskit"
	simcheck "verif/sim/check"
	simexec "verif/sim/exec"
	"verif/sim/gen"
	simos "verif/sim/os"
	simrt "verif/sim/rt"
	simtime "verif/sim/time"
)

type Line struct {
	Kind string `json:"kind"`
	Arg  int    `json:"arg,omitempty"`
}

type Script struct {
	Lines    []Line `json:"lines"`
	HasTool  bool   `json:"has_tool,omitempty"`  // this script's PATH contains the optional tool
	WorkTool bool   `json:"work_tool,omitempty"` // this script installs the second optional tool under its own $WORK/bin
	DupEntry bool   `json:"dup_entry,omitempty"` // the archive names one file twice
	Base     int    `json:"base,omitempty"`      // with Plan.OwnDirs: which base name the script file has
}

// base names that collide or look like the counters RunT appends to duplicates
var baseNames = []string{"foo.txt", "foo#1.txt", "foo.txtar", "foo#2.txt", "bar.txt"}

type Plan struct {
	Scripts     []Script    `json:"scripts"`
	TestWork    bool        `json:"test_work,omitempty"`
	WorkdirRoot bool        `json:"workdir_root,omitempty"`
	UniqueNames bool        `json:"unique_names,omitempty"`
	SetupFail   int         `json:"setup_fail"`          // index of a script whose Setup fails, -1 none
	PriorKeep   bool        `json:"prior_keep,omitempty"` // an earlier RunT call of the same process (one script) asked for its work directory to be retained
	Missing     int         `json:"missing,omitempty"`   // 1+index of a script whose file has vanished by the time its turn comes (0: none)
	HostRace    bool        `json:"host_race,omitempty"` // the host environment has GORACE set
	Verbose     bool        `json:"verbose,omitempty"`
	Parallel    int         `json:"parallel,omitempty"`
	OwnDirs     bool        `json:"own_dirs,omitempty"` // every script file lives in its own directory and base names may repeat
	Sched       simrt.Sched `json:"sched"`
}

var kinds = []string{"mkdir", "cp", "mv", "rm", "cd", "cdback", "env", "envexpand", "exists", "notexists", "execfg", "execenv", "execpwd", "execbg", "execbgshort", "wait",
	"toolguard", "notoolguard", "stop", "skip", "fail", "negfail", "probe", "probe", "defer", "defer", "writecanary", "deferfail", "execbgsave", "worktool", "execbgchild", "tskip", "tfailnow", "linkout", "nopath", "execbgdup"}

func genPlan(t *rapid.T, tier string) any {
	p := &Plan{SetupFail: -1}
	n := rapid.IntRange(2, 4).Draw(t, "scripts")
	for i := 0; i < n; i++ {
		s := Script{HasTool: rapid.Bool().Draw(t, "hastool"), WorkTool: rapid.Bool().Draw(t, "worktool")}
		nl := rapid.IntRange(2, 9).Draw(t, "nlines")
		for k := 0; k < nl; k++ {
			s.Lines = append(s.Lines, Line{Kind: rapid.SampledFrom(kinds).Draw(t, "kind"), Arg: rapid.IntRange(0, 3).Draw(t, "arg")})
		}
		p.Scripts = append(p.Scripts, s)
	}
	switch rapid.IntRange(0, 9).Draw(t, "retention") {
	case 0:
		p.TestWork = true
	case 1:
		p.WorkdirRoot = true
	}
	if rapid.IntRange(0, 5).Draw(t, "unique") == 0 {
		p.UniqueNames = true
		p.Scripts[rapid.IntRange(0, n-1).Draw(t, "dup")].DupEntry = true
	} else if rapid.IntRange(0, 4).Draw(t, "dupallowed") == 0 {
		// without RequireUniqueNames the later (shorter) entry of the same name is what the script must find
		p.Scripts[rapid.IntRange(0, n-1).Draw(t, "dup2")].DupEntry = true
	}
	if rapid.IntRange(0, 5).Draw(t, "setupfail") == 0 {
		p.SetupFail = rapid.IntRange(0, n-1).Draw(t, "setupfailidx")
	}
	p.PriorKeep = rapid.IntRange(0, 5).Draw(t, "priorkeep") == 0
	if rapid.IntRange(0, 7).Draw(t, "missing") == 0 {
		p.Missing = 1 + rapid.IntRange(0, n-1).Draw(t, "missingidx")
	}
	if rapid.IntRange(0, 2).Draw(t, "owndirs") == 0 {
		p.OwnDirs = true
		for i := range p.Scripts {
			p.Scripts[i].Base = rapid.IntRange(0, len(baseNames)-1).Draw(t, "base")
		}
	}
	p.HostRace = rapid.Bool().Draw(t, "hostrace")
	p.Verbose = rapid.IntRange(0, 5).Draw(t, "verbose") == 0
	if rapid.IntRange(0, 3).Draw(t, "limited") == 0 {
		p.Parallel = rapid.SampledFrom([]int{1, 2, -1}).Draw(t, "parallel") // -1: a T whose Run is synchronous and Parallel a no-op
	}
	p.Sched = gen.Sched(t, 600)
	return p
}

// scriptText renders script i; tool is the phase-specific name of the optional program.
func scriptText(i int, s Script, tool string) string {
	var b strings.Builder
	fmt.Fprintf(&b, "# script %d\nprobe initial\n", i)
	foreverBg := false
	for li, l := range s.Lines {
		// every duration gets its own power-of-two microsecond offset, so that no two
		// instants inside one script coincide (ties between timers are not seeded)
		us := 1 << uint(li)
		switch l.Kind {
		case "mkdir":
			fmt.Fprintf(&b, "mkdir d/sub%d\n", l.Arg)
		case "cp":
			fmt.Fprintf(&b, "cp a/f.txt a/copy%d.txt\n", l.Arg)
		case "mv":
			b.WriteString("mv a/f.txt a/g.txt\n")
		case "rm":
			b.WriteString("rm a/f.txt\n")
		case "cd":
			b.WriteString("cd a\n")
		case "cdback":
			b.WriteString("cd $WORK\n")
		case "env":
			fmt.Fprintf(&b, "env VAR=s%d-%d\n", i, l.Arg)
		case "envexpand":
			b.WriteString("env SEEN=$VERIF_CANARY-$VAR\n")
		case "exists":
			b.WriteString("exists a/f.txt\n")
		case "notexists":
			b.WriteString("! exists bgmade.txt\n")
		case "execfg":
			fmt.Fprintf(&b, "exec stub run=%dus out=s%d touch=made%d.txt\n", (2+l.Arg*7)*1000+us, i, l.Arg)
		case "execenv":
			b.WriteString("exec stub env=VAR\nexec stub env=VERIF_CANARY\n")
		case "execpwd":
			b.WriteString("exec stub pwd\n")
		case "execbg":
			fmt.Fprintf(&b, "exec stub bg=true run=forever int=%dus quit=%dus touch=bgmade.txt &\n", (3+l.Arg)*1000+us, (3+l.Arg)*1000+us)
			foreverBg = true
		case "execbgsave":
			// a background server that saves state under $WORK when it is told to stop
			fmt.Fprintf(&b, "exec stub bg=true run=forever int=%dus quit=%dus onsig=state%d.txt &\n", (2+l.Arg)*1000+us, (2+l.Arg)*1000+us, l.Arg)
			foreverBg = true
		case "deferfail":
			fmt.Fprintf(&b, "deferfail %d\n", l.Arg)
		case "nopath":
			// the script's PATH does not contain the program; that the host's PATH does is none of its business
			fmt.Fprintf(&b, "env SAVED=$PATH\nenv PATH=$WORK/nobin\n! exec stub run=%dus\nenv PATH=$SAVED\n", 1000+us)
		case "execbgdup":
			// the same background name twice: the second line is an error of the script, and must not start anything
			fmt.Fprintf(&b, "exec stub bg=true run=forever int=%dus quit=%dus &dup&\nexec stub bg=true run=forever int=%dus quit=%dus &dup&\n", 3000+us, 3000+us, 4000+us, 4000+us)
			foreverBg = true
		case "linkout":
			// a symbolic link, inside the work directory, to a directory that belongs to somebody else
			fmt.Fprintf(&b, "symlink out%d -> $OUTSIDE\n", l.Arg)
		case "tskip":
			b.WriteString("tskip\n")
		case "tfailnow":
			b.WriteString("tfailnow\n")
		case "execbgchild":
			// a background program that exits soon but leaves a descendant holding its output for a while
			fmt.Fprintf(&b, "exec stub bg=true run=%dus out=bgc%d hold=%dus &\n", (4+l.Arg)*1000+us, i, (150+l.Arg*100)*1000+us)
		case "execbgshort":
			fmt.Fprintf(&b, "exec stub bg=true run=%dus out=bg%d &\n", (5+l.Arg*10)*1000+us, i)
		case "wait":
			if foreverBg {
				// a background process that never exits by itself is told to first
				b.WriteString("kill -INT\n")
				foreverBg = false
			}
			b.WriteString("wait\n")
		case "worktool":
			// every script puts its own $WORK/bin first on PATH; only some install the program there
			b.WriteString("env PATH=$WORK/bin${:}$PATH\n")
			if s.WorkTool {
				fmt.Fprintf(&b, "mkdir bin\ncp w/src bin/w%s\nchmod 755 bin/w%s\n", tool, tool)
			}
			fmt.Fprintf(&b, "[exec:w%s] probe has-worktool\n[!exec:w%s] probe no-worktool\n", tool, tool)
		case "toolguard":
			fmt.Fprintf(&b, "[exec:%s] probe has-tool\n", tool)
		case "notoolguard":
			fmt.Fprintf(&b, "[!exec:%s] probe no-tool\n", tool)
		case "stop":
			b.WriteString("stop\n")
		case "skip":
			b.WriteString("skip\n")
		case "fail":
			b.WriteString("exec stub code=1\n")
		case "negfail":
			b.WriteString("! exec stub code=1\n")
		case "probe":
			fmt.Fprintf(&b, "probe p%d\n", l.Arg)
		case "defer":
			fmt.Fprintf(&b, "defer %d\n", l.Arg)
		case "writecanary":
			fmt.Fprintf(&b, "exists $WORK/a\n")
		}
	}
	b.WriteString("probe end\n")
	fmt.Fprintf(&b, "-- a/f.txt --\ncontent of script %d\n-- d/keep.txt --\nkeep %d\n-- w/src --\n#!/bin/false\n", i, i)
	if s.DupEntry {
		fmt.Fprintf(&b, "-- a/f.txt --\nsecond copy %d\n", i)
	}
	return b.String()
}

type record struct {
	Script string
	Kind   string // probe | defer | setupenv | final
	Label  string
	Body   string
}

func listing(root string) string {
	var lines []string
	filepath.Walk(root, func(p string, fi os.FileInfo, err error) error {
		if err != nil {
			return nil
		}
		rel, _ := filepath.Rel(root, p)
		if rel == "." {
			return nil
		}
		if rel == ".tmp" {
			lines = append(lines, ".tmp/")
			return filepath.SkipDir
		}
		if fi.IsDir() {
			lines = append(lines, rel+"/")
			return nil
		}
		data, _ := os.ReadFile(p)
		lines = append(lines, fmt.Sprintf("%s %x", rel, sha256.Sum256(data))[:len(rel)+1+12])
		return nil
	})
	sort.Strings(lines)
	return strings.Join(lines, "\n")
}

type phase struct {
	subs    []*tskit.Sub
	procs   []*simexec.Proc
	records []record
	rep     *simrt.Report
	fatal   string
	gotmp   string
	wroot   string
	outside string
	end     time.Duration
	// what the private GOTMPDIR held at the very instant the last of {the scripts, RunT itself} ended
	endProbed bool
	atEnd     []string
}

var timing = regexp.MustCompile(`\(\d+\.\d+s\)`)
var toolName = regexp.MustCompile(`tool_[a-z0-9_]+`)

const canary = "VERIF_CANARY"

func execute(t *testing.T, p *Plan, dir, tag string, idx []int, tool string, keep bool) *phase {
	ph := &phase{gotmp: filepath.Join(dir, "gotmp-"+tag), wroot: filepath.Join(dir, "wroot-"+tag)}
	os.MkdirAll(ph.gotmp, 0o777)
	os.MkdirAll(ph.wroot, 0o777)
	sdir := filepath.Join(dir, "scripts-"+tag)
	if tag == "p" {
		// the earlier call runs an older edition of the batch's first script file: same path, same length, and -
		// the simulated clock starts at the same instant in every phase - the same modification time
		sdir = filepath.Join(dir, "scripts-b")
	}
	os.MkdirAll(sdir, 0o777)
	// a directory of somebody else's, with restrictive permissions, that scripts may link to
	ph.outside = filepath.Join(dir, "outside-"+tag)
	os.MkdirAll(filepath.Join(ph.outside, "private"), 0o700)
	os.WriteFile(filepath.Join(ph.outside, "private", "secret.txt"), []byte("not yours\n"), 0o600)
	os.Chmod(filepath.Join(ph.outside, "private"), 0o500)
	os.Chmod(ph.outside, 0o500)
	tooldir := filepath.Join(dir, "tools-"+tag)
	os.MkdirAll(tooldir, 0o777)
	os.WriteFile(filepath.Join(tooldir, tool), []byte("#!/bin/false\n"), 0o755)
	var files []string
	byFile := map[string]int{}
	for _, i := range idx {
		f := filepath.Join(sdir, fmt.Sprintf("s%d.txt", i))
		if p.OwnDirs {
			os.MkdirAll(filepath.Join(sdir, fmt.Sprintf("d%d", i)), 0o777)
			f = filepath.Join(sdir, fmt.Sprintf("d%d", i), baseNames[p.Scripts[i].Base])
		}
		if p.Missing != i+1 {
			text := scriptText(i, p.Scripts[i], tool)
			if tag == "p" {
				text = strings.ReplaceAll(text, "content of script", "CONTENT OF SCRIPT")
			}
			os.WriteFile(f, []byte(text), 0o666)
		} else {
			os.Remove(f) // (the earlier call may have left its edition there)
		}
		files = append(files, f)
		byFile[f] = i
	}
	simos.Reset()
	simtime.Reset()
	for _, f := range files {
		simos.SetMtime(f, time.Date(2000, 1, 1, 0, 0, 0, 0, time.UTC))
	}
	bin := tskit.BinDir("stub")
	host := map[string]string{"PATH": bin, "GOTMPDIR": ph.gotmp, "HOME": "/host-home", "TMPDIR": ph.gotmp, canary: "leaked-host-value", "USER": "hostuser"}
	if p.HostRace {
		host["GORACE"] = "atexit_sleep_ms=10"
	}
	simos.SetEnvTable(host)
	defer simos.SetEnvTable(nil)
	add := func(r record) { ph.records = append(ph.records, r) }
	ph.rep = simrt.Run(t, simrt.Options{Sched: p.Sched, MaxSteps: 300000, IdleCap: time.Hour, KeepTrace: keep}, func(s *simrt.Sim) {
		epoch := time.Now()
		simexec.Reset(epoch)
		root := tskit.NewRoot(s, epoch, p.Verbose)
		root.Limit = p.Parallel
		root.Sequential = p.Parallel < 0
		deferSeq := map[string][]string{}
		params := testscript.Params{
			Files:              files,
			TestWork:           p.TestWork,
			RequireUniqueNames: p.UniqueNames,
			Setup: func(env *testscript.Env) error {
				// which script is this? its archive says so (names may repeat across scripts)
				sidx := -1
				if data, err := os.ReadFile(filepath.Join(env.WorkDir, "a", "f.txt")); err == nil {
					f := strings.Fields(string(data))
					if len(f) > 0 {
						fmt.Sscanf(f[len(f)-1], "%d", &sidx)
					}
				}
				name := fmt.Sprintf("s%d", sidx)
				env.Setenv("SIDX", name)
				env.Values["T"] = env.T()
				vars := append([]string(nil), env.Vars[:len(env.Vars)-1]...)
				for k, v := range vars {
					if strings.HasPrefix(v, "WORK=") || strings.HasPrefix(v, "TMPDIR=") {
						vars[k] = v[:strings.Index(v, "=")+1] + "<work>" + strings.TrimPrefix(v[strings.Index(v, "=")+1:], env.WorkDir)
					}
				}
				add(record{name, "setupenv", "", strings.Join(vars, "\n")})
				add(record{name, "probe", "setup-tree", listing(env.WorkDir)})
				env.Setenv("OUTSIDE", ph.outside)
				if sidx >= 0 && sidx < len(p.Scripts) && p.Scripts[sidx].HasTool {
					env.Setenv("PATH", bin+string(os.PathListSeparator)+tooldir)
				}
				work := env.WorkDir
				env.Defer(func() {
					add(record{name, "final", "", listing(work)})
				})
				if p.SetupFail == sidx {
					return fmt.Errorf("setup refused")
				}
				return nil
			},
			Cmds: map[string]func(ts *testscript.TestScript, neg bool, args []string){
				"probe": func(ts *testscript.TestScript, neg bool, args []string) {
					simrt.Yield("probe")
					work := ts.Getenv("WORK")
					cwd, _ := filepath.Rel(work, ts.MkAbs("."))
					add(record{ts.Getenv("SIDX"), "probe", strings.Join(args, " "),
						fmt.Sprintf("cwd=%s VAR=%q SEEN=%q CANARY=%q\n%s", cwd, ts.Getenv("VAR"), ts.Getenv("SEEN"), ts.Getenv(canary), listing(work))})
				},
				// custom commands that end the script through the T they got from Env.T, behind the engine's back
				"tskip": func(ts *testscript.TestScript, neg bool, args []string) {
					if tt, _ := ts.Value("T").(testscript.T); tt != nil {
						tt.Skip("skipped by a custom command")
					}
				},
				"tfailnow": func(ts *testscript.TestScript, neg bool, args []string) {
					if tt, _ := ts.Value("T").(testscript.T); tt != nil {
						tt.FailNow()
					}
				},
				"deferfail": func(ts *testscript.TestScript, neg bool, args []string) {
					// a cleanup that finds something wrong and fails the test from inside the deferred call
					name := ts.Getenv("SIDX")
					label := fmt.Sprintf("%s#%d", args[0], len(deferSeq[name]))
					deferSeq[name] = append(deferSeq[name], label)
					tt, _ := ts.Value("T").(testscript.T)
					ts.Defer(func() {
						add(record{name, "defer", label, ""})
						if tt != nil {
							tt.FailNow()
						}
					})
				},
				"defer": func(ts *testscript.TestScript, neg bool, args []string) {
					name := ts.Getenv("SIDX")
					label := fmt.Sprintf("%s#%d", args[0], len(deferSeq[name]))
					deferSeq[name] = append(deferSeq[name], label)
					ts.Defer(func() { add(record{name, "defer", label, ""}) })
				},
			},
		}
		if p.WorkdirRoot {
			params.WorkdirRoot = ph.wroot
		}
		runtReturned, ended := false, 0
		probeEnd := func() {
			if !runtReturned || ended < len(idx) || ph.endProbed {
				return
			}
			ph.endProbed = true
			ents, _ := os.ReadDir(ph.gotmp)
			for _, e := range ents {
				ph.atEnd = append(ph.atEnd, e.Name())
			}
		}
		root.OnSubEnd = func(*tskit.Sub) { ended++; probeEnd() }
		testscript.RunT(root, params)
		runtReturned = true
		probeEnd()
		root.Release()
		ph.subs = root.Subs
		ph.fatal = root.Fatal_
		ph.end = time.Since(epoch)
		// deferred functions: complete and in reverse order, per script
		for name, regs := range deferSeq {
			var ran []string
			for _, r := range ph.records {
				if r.Script == name && r.Kind == "defer" {
					ran = append(ran, r.Label)
				}
			}
			want := make([]string, len(regs))
			for k := range regs {
				want[len(regs)-1-k] = regs[k]
			}
			if strings.Join(ran, ",") != strings.Join(want, ",") {
				add(record{name, "deferorder", "", fmt.Sprintf("registered %v, ran %v", regs, ran)})
			}
		}
	})
	ph.procs = simexec.Procs()
	return ph
}

func scriptOf(dir string) string {
	for _, el := range strings.Split(dir, string(os.PathSeparator)) {
		if strings.HasPrefix(el, "script-") {
			return strings.TrimPrefix(el, "script-")
		}
	}
	return ""
}

func norm(s, dir string) string {
	s = timing.ReplaceAllString(s, "(T)")
	s = toolName.ReplaceAllString(s, "tool")
	s = strings.ReplaceAll(s, dir, "<dir>")
	s = regexp.MustCompile(`(gotmp|wroot|scripts|tools|outside)-[a-z0-9]+`).ReplaceAllString(s, "$1")
	s = regexp.MustCompile(`go-test-script\d+`).ReplaceAllString(s, "go-test-scriptN")
	s = regexp.MustCompile(`script-[^\s/]+`).ReplaceAllString(s, "script-NAME") // disambiguating counters differ between batch and solo
	return s
}

var planSeq int

func run(t *testing.T, plan any, keep bool) *simcheck.Outcome {
	p := plan.(*Plan)
	out := &simcheck.Outcome{}
	base := os.Getenv("VERIF_WORKDIR")
	if base == "" {
		base = os.TempDir()
	}
	dir := filepath.Join(base, "c04")
	os.RemoveAll(dir)
	os.MkdirAll(dir, 0o777)
	planSeq++
	all := make([]int, len(p.Scripts))
	for i := range all {
		all[i] = i
	}
	// process-global names (the [exec:] result cache is keyed by program name) are made
	// unique per plan and phase, so that the reference runs are not polluted by the batch
	if p.PriorKeep {
		// RunT calls of one process are independent: what an earlier call asked for (retention) must not stick
		pp := *p
		pp.TestWork, pp.WorkdirRoot, pp.Missing, pp.SetupFail, pp.UniqueNames = true, false, 0, -1, false
		prior := execute(t, &pp, dir, "p", []int{0}, fmt.Sprintf("tool_%d_p", planSeq), false)
		if prior.rep.Deadlock || prior.rep.StepCap {
			out.Inconclusive = "the earlier RunT call did not finish: " + prior.rep.DescribeBlocked()
			return out
		}
		out.Count("prior_runt_calls_with_retention", 1)
	}
	batch := execute(t, p, dir, "b", all, fmt.Sprintf("tool_%d_b", planSeq), keep)
	rep := batch.rep
	out.TraceHash, out.Steps, out.Trace = rep.TraceHash, rep.Steps, rep.Trace
	out.SimSeconds = batch.end.Seconds()
	simcheck.Panics(out, rep.Panics)
	if rep.StepCap {
		out.Inconclusive = "step cap: " + rep.DescribeBlocked()
		return out
	}
	if rep.Deadlock {
		out.Violate("hang", "nothing can run and no timer is pending for a simulated hour: %s", rep.DescribeBlocked())
		return out
	}
	if rep.BubbleErr != "" {
		out.Inconclusive = "bubble: " + rep.BubbleErr
		return out
	}
	if batch.fatal != "" || len(batch.subs) != len(p.Scripts) {
		out.Inconclusive = fmt.Sprintf("RunT did not run the batch: %q (%d subtests)", batch.fatal, len(batch.subs))
		return out
	}
	check := func(ph *phase, label string, idx []int) {
		seenName := map[string]int{}
		for k, sub := range ph.subs {
			if j, dup := seenName[sub.Name]; dup {
				out.Violate("shared-name", "%s scripts %d and %d of one RunT call were both given the subtest name %q and therefore the same work directory", label, idx[j], idx[k], sub.Name)
			}
			seenName[sub.Name] = k
		}
		// (2) environment from scratch; host variables invisible
		for _, r := range ph.records {
			switch r.Kind {
			case "setupenv":
				for _, kv := range strings.Split(r.Body, "\n") {
					k, v, _ := strings.Cut(kv, "=")
					switch k {
					case "WORK", "PATH", "GOTRACEBACK", "HOME", "TMPDIR", "devnull", "/", ":", "$", "exe":
					case "GORACE":
						if !p.HostRace || v != "atexit_sleep_ms=10" {
							out.Violate("env-not-from-scratch", "%s script %s: GORACE=%q in the script environment, host has it set: %v", label, r.Script, v, p.HostRace)
						}
					case "GOCOVERDIR":
					default:
						out.Violate("env-not-from-scratch", "%s script %s: variable %s=%q is visible to the script but is not one of the documented ones", label, r.Script, k, v)
					}
				}
				if p.HostRace && !strings.Contains(r.Body, "GORACE=atexit_sleep_ms=10") {
					out.Violate("env-not-from-scratch", "%s script %s: host GORACE is not passed through", label, r.Script)
				}
				if strings.Contains(r.Body, "HOME=/host-home") {
					out.Violate("env-not-from-scratch", "%s script %s: the host's HOME is visible", label, r.Script)
				}
			case "probe":
				if strings.Contains(r.Body, "leaked-host-value") {
					out.Violate("host-variable-visible", "%s script %s probe %s: the host variable %s is visible to the script (%s)", label, r.Script, r.Label, canary, strings.SplitN(r.Body, "\n", 2)[0])
				}
				if r.Label == "setup-tree" {
					i := 0
					fmt.Sscanf(r.Script, "s%d", &i)
					want := ".tmp/\na/\na/f.txt\nd/\nd/keep.txt\nw/\nw/src"
					got := regexp.MustCompile(` [0-9a-f]+`).ReplaceAllString(r.Body, "")
					if got != want {
						out.Violate("initial-tree", "%s script %s: the work directory at Setup holds\n%s\nwant exactly the archive's files\n%s", label, r.Script, got, want)
					} else if i >= 0 && i < len(p.Scripts) && strings.HasPrefix(r.Script, "s") {
						// ... with the archive's contents (the last entry of a name counts)
						f := fmt.Sprintf("content of script %d\n", i)
						if p.Scripts[i].DupEntry {
							f = fmt.Sprintf("second copy %d\n", i)
							out.Count("duplicate_entry_unpacked", 1)
						}
						sum := func(name, data string) string {
							return fmt.Sprintf("%s %x", name, sha256.Sum256([]byte(data)))[:len(name)+1+12]
						}
						wantC := strings.Join([]string{".tmp/", "a/", sum("a/f.txt", f), "d/", sum("d/keep.txt", fmt.Sprintf("keep %d\n", i)), "w/", sum("w/src", "#!/bin/false\n")}, "\n")
						if r.Body != wantC {
							out.Violate("initial-content", "%s script %s: the archive's files do not have the archive's contents at Setup:\n%s\nwant\n%s", label, r.Script, r.Body, wantC)
						}
					}
				}
			case "deferorder":
				out.Violate("deferred-order", "%s script %s: deferred functions did not all run in reverse order: %s", label, r.Script, r.Body)
			}
		}
		for _, pr := range ph.procs {
			for _, kv := range pr.Env {
				if strings.HasPrefix(kv, canary+"=") || strings.HasPrefix(kv, "USER=") {
					out.Violate("host-variable-visible", "%s: child process %v sees host variable %s", label, pr.Args, kv)
				}
			}
			// (2b) programs are found through the script's PATH, never through the host's
			if len(pr.Args) > 0 {
				scriptPath, ok := "", false
				for _, kv := range pr.Env {
					if strings.HasPrefix(kv, "PATH=") {
						scriptPath, ok = kv[5:], true
					}
				}
				inPath := false
				for _, d := range filepath.SplitList(scriptPath) {
					inPath = inPath || d == filepath.Dir(pr.Path)
				}
				if ok && !inPath && filepath.Base(pr.Path) == "stub" {
					out.Violate("host-path-lookup", "%s: process %s was started although its directory is not on the script's PATH (%s): it was found through the host's", label, pr.Path, scriptPath)
				}
			}
			// (3) no process survives its script
			name := ""
			for _, kv := range pr.Env {
				if strings.HasPrefix(kv, "SIDX=") {
					name = kv[5:]
				}
			}
			var sub *tskit.Sub
			for k, i := range idx {
				if fmt.Sprintf("s%d", i) == name {
					sub = ph.subs[k]
				}
			}
			if pr.DescendantAlive(ph.end) {
				out.Violate("child-left-behind", "%s script %s: a descendant of process %v (it inherited the output pipes) is still alive after all subtests ended", label, name, pr.Args[1:])
			}
			if !pr.Exited {
				out.Violate("child-left-behind", "%s script %s: process %v is still alive after all subtests ended", label, name, pr.Args[1:])
			} else if sub != nil && pr.ExitAt > sub.EndAt {
				out.Violate("child-left-behind", "%s script %s: process %v exited at %v, after its subtest ended (%v)", label, name, pr.Args[1:], pr.ExitAt, sub.EndAt)
			} else if !pr.Reaped {
				out.Violate("child-not-reaped", "%s script %s: process %v was never waited for", label, name, pr.Args[1:])
			}
		}
		// every script that got as far as Setup recorded its final tree (deferred functions run on every exit path)
		for k, i := range idx {
			name := fmt.Sprintf("s%d", i)
			setup, final := 0, 0
			for _, r := range ph.records {
				if r.Script == name && r.Kind == "setupenv" {
					setup++
				}
				if r.Script == name && r.Kind == "final" {
					final++
				}
			}
			if setup != final {
				out.Violate("deferred-not-run", "%s script %s: Setup's deferred function ran %d times for %d setups (failed=%v skipped=%v)", label, name, final, setup, ph.subs[k].Failed, ph.subs[k].Skipped)
			}
		}
		// (4b) what lies outside the work directories is nobody's to change, however a script points at it
		for _, d := range []string{ph.outside, filepath.Join(ph.outside, "private")} {
			if fi, err := os.Stat(d); err != nil || fi.Mode().Perm() != 0o500 {
				out.Violate("outside-touched", "%s: directory %s outside every work directory (scripts held symbolic links to it) now has mode %v (error %v), it had 0500", label, filepath.Base(d), fi.Mode().Perm(), err)
			}
		}
		if b, err := os.ReadFile(filepath.Join(ph.outside, "private", "secret.txt")); err != nil || string(b) != "not yours\n" {
			out.Violate("outside-touched", "%s: a file outside every work directory was changed or removed (%v)", label, err)
		}
		// (4) directories
		ents, _ := os.ReadDir(ph.gotmp)
		wents, _ := os.ReadDir(ph.wroot)
		// a script whose file cannot be read may or may not have been given a work directory
		retainedOK := func(n int) bool {
			for _, i := range idx {
				if p.Missing == i+1 && n == len(idx)-1 {
					return true
				}
			}
			return n == len(idx)
		}
		switch {
		case p.WorkdirRoot:
			if !retainedOK(len(wents)) {
				out.Violate("retention", "%s: WorkdirRoot requested, %d work directories remain for %d scripts", label, len(wents), len(idx))
			}
			if len(ents) != 0 {
				out.Violate("leftover-directory", "%s: WorkdirRoot set, yet the private GOTMPDIR holds %d entries", label, len(ents))
			}
		case p.TestWork:
			n := 0
			for _, e := range ents {
				sub, _ := os.ReadDir(filepath.Join(ph.gotmp, e.Name()))
				n += len(sub)
			}
			if !retainedOK(n) {
				out.Violate("retention", "%s: TestWork requested, %d work directories remain for %d scripts", label, n, len(idx))
			}
		default:
			if len(ents) != 0 {
				var names []string
				for _, e := range ents {
					names = append(names, e.Name())
				}
				out.Violate("leftover-directory", "%s: after the last script the private GOTMPDIR still holds %v", label, names)
			}
			if ph.endProbed && len(ph.atEnd) != 0 {
				out.Violate("leftover-directory", "%s: at the instant the last script's run ended (RunT had returned) the private GOTMPDIR still held %v: the shared temporary root is removed only later, by something that outlives the run", label, ph.atEnd)
			}
			if len(wents) != 0 {
				out.Violate("leftover-directory", "%s: unrequested work directory root in use", label)
			}
		}
	}
	check(batch, "batch run:", all)
	solos := 0
	if out.Violation == nil {
		// (1) same results as when run one at a time
		for i := range p.Scripts {
			solo := execute(t, p, dir, fmt.Sprintf("s%d", i), []int{i}, fmt.Sprintf("tool_%d_s%d", planSeq, i), false)
			if solo.rep.Deadlock || solo.rep.StepCap || len(solo.subs) != 1 {
				out.Violate("hang", "script s%d run alone does not finish: %s", i, solo.rep.DescribeBlocked())
				return out
			}
			simcheck.Panics(out, solo.rep.Panics)
			check(solo, fmt.Sprintf("solo run of s%d:", i), []int{i})
			if out.Violation != nil {
				break
			}
			solos++
			a, b := batch.subs[i], solo.subs[0]
			name := fmt.Sprintf("s%d", i)
			if a.Failed != b.Failed || a.Skipped != b.Skipped {
				out.Violate("interference", "script %s: in the batch failed=%v skipped=%v, alone failed=%v skipped=%v\n--- batch log\n%s\n--- solo log\n%s", name, a.Failed, a.Skipped, b.Failed, b.Skipped, norm(a.Log, dir), norm(b.Log, dir))
				break
			}
			if la, lb := norm(a.Log, dir), norm(b.Log, dir); la != lb {
				out.Violate("interference", "script %s: log differs between the batch run and the solo run\n--- batch\n%s\n--- solo\n%s", name, la, lb)
				break
			}
			var ra, rb []string
			for _, r := range batch.records {
				if r.Script == name && r.Kind != "deferorder" {
					ra = append(ra, norm(r.Kind+" "+r.Label+"\n"+r.Body, dir))
				}
			}
			for _, r := range solo.records {
				if r.Script == name && r.Kind != "deferorder" {
					rb = append(rb, norm(r.Kind+" "+r.Label+"\n"+r.Body, dir))
				}
			}
			if strings.Join(ra, "\n==\n") != strings.Join(rb, "\n==\n") {
				k := 0
				for k < len(ra) && k < len(rb) && ra[k] == rb[k] {
					k++
				}
				ga, gb := "<nothing>", "<nothing>"
				if k < len(ra) {
					ga = ra[k]
				}
				if k < len(rb) {
					gb = rb[k]
				}
				out.Violate("interference", "script %s observes something different in the batch than alone (record %d):\n--- batch\n%s\n--- solo\n%s", name, k, ga, gb)
				break
			}
		}
	}
	out.Nontrivial = rep.Switches > len(p.Scripts)+2
	out.Count("scripts", int64(len(p.Scripts)))
	out.Count("solo_reference_runs", int64(solos))
	out.Count("processes_started", int64(len(batch.procs)))
	out.Count("proc_starts", simexec.Starts)
	out.Count("context_switches", int64(rep.Switches))
	ops, _ := simos.Counters()
	out.Count("file_ops", ops["open"]+ops["stat"]+ops["write"]+ops["remove"]+ops["removeall"]+ops["rename"]+ops["mkdirtemp"])
	for _, s := range batch.subs {
		switch {
		case s.Failed:
			out.Count("verdict_failed", 1)
		case s.Skipped:
			out.Count("verdict_skipped", 1)
		default:
			out.Count("verdict_passed", 1)
		}
	}
	if p.TestWork {
		out.Count("config_testwork", 1)
	}
	if p.WorkdirRoot {
		out.Count("config_workdirroot", 1)
	}
	if p.SetupFail >= 0 {
		out.Count("config_setup_failure", 1)
	}
	if p.UniqueNames {
		out.Count("config_unique_names_with_duplicate", 1)
	}
	return out
}

var harness = &simcheck.Harness{
	Property: "C04",
	Level:    "exploration",
	Rule: "rapid draws a batch of 2-4 scripts of 2-9 lines each over the same relative names (mkdir cp mv rm cd env exists, foreground / background stub processes that create files and print their environment and cwd, background programs that exit but leave a descendant holding their output pipes for 150-450 ms, wait, " +
		"[exec:tool] guards with per-script PATHs (a shared tool directory that only some scripts have on PATH; a $WORK/bin that every script puts on PATH and only some install the program into), stop, skip, failing and negated lines, probe and defer custom commands, custom commands that skip or fail the script directly through the T of Env.T, symbolic links from the work directory to a restricted directory of somebody else's, a PATH without the program, a background name used twice), retention options (TestWork / WorkdirRoot), RequireUniqueNames with a duplicate entry, an earlier RunT call of the process that ran an older edition of the first script file (same path, same length, same simulated mtime), a duplicate (shorter) entry without it - the later one must be what the script finds, " +
		"a failing Setup, a script file that has vanished, optionally an earlier RunT call in the same process that asked for retention, host GORACE, verbosity, a -parallel limit and a schedule; the batch runs once, then every script runs alone; non-trivial = more context switches than scripts+2; distinct by decision-trace hash",
	Gen:     genPlan,
	NewPlan: func() any { return &Plan{} },
	Run:     run,
	Components: map[string]string{
		"testscript, par (exec: cache), txtar, execpath": "real code from /repo's working tree, recompiled with substituted imports (os, os/exec, sync, sync/atomic)",
		"child processes":  "stub (verif/sim/exec)",
		"host environment": "simulated table (verif/sim/os): PATH, GOTMPDIR, HOME, TMPDIR, USER, a canary variable, optional GORACE",
		"file system":      "real, every operation a scheduler decision",
		"testing.T":        "recording stub with subtests as simulator tasks",
	},
	Assumptions: []string{
		"the checks run as root, so read-only directories do not hinder removal and that part of the cleanup path is not exercised",
		"process-global program names are made unique per plan and phase, so that the solo reference runs are not influenced by the batch run through the process-wide [exec:] cache",
	},
	RequiredCounters: []string{"proc_starts", "solo_reference_runs", "file_ops", "verdict_failed", "verdict_passed", "verdict_skipped"},
}

func TestSim(t *testing.T) { simcheck.Main(t, harness) }
