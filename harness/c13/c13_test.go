// Package c13 decides C13: Trim removes only stale entries and only when a trim
// is due - over histories of Put / lookup / clock steps / Trim / trim-record
// rewrites / foreign files / directly aged files, on a simulated clock
// (boundary-biased steps, skew and jumps), against a reference retention model.
package c13

import (
	"bytes"
	"fmt"
	"os"
	"path/filepath"
	"sort"
	"strconv"
	"strings"
	"testing"
	"time"

	"github.com/rogpeppe/go-internal/cache"
	"pgregory.net/rapid"

	"verif/harness/cachekit"
	simcheck "verif/sim/check"
	"verif/sim/gen"
	simos "verif/sim/os"
	simrt "verif/sim/rt"
	simtime "verif/sim/time"
)

type Step struct {
	Kind    string `json:"kind"` // put get getbytes getfile outputfile advance jump trim record plant setage
	ID      int    `json:"id,omitempty"`
	Content int    `json:"content,omitempty"`
	Secs    int64  `json:"secs,omitempty"`   // advance / jump / setage (age) / record (offset before now)
	Record  string `json:"record,omitempty"` // valid garbage empty missing
	Target  string `json:"target,omitempty"` // setage/trimat: index | data; plant: which foreign file
	Lookup  string `json:"lookup,omitempty"` // touch: get | getbytes | getfile
	Base    int64  `json:"base,omitempty"`   // trimat / trimrec: threshold in seconds the jitter is relative to
	Errno   string `json:"errno,omitempty"`  // trim / trimat / trimrec: the Nth removal of this Trim fails with this error
	Nth     int    `json:"nth,omitempty"`
	During  int64  `json:"during,omitempty"`   // trim steps: the clock moves forward by this many seconds while the Trim is scanning (at its Nth directory listing)
	FaultOp string `json:"fault_op,omitempty"` // "" = the Nth removal fails; open | read = the first open / read of the trim record fails (the record is unreadable)
	// Look: another goroutine of the process looks entry ID up (GetBytes on the same Cache value) while this Trim is
	// scanning: it is released at the Trim's Nth directory listing and the schedule decides the rest
	Look bool `json:"look,omitempty"`
}

type Plan struct {
	Start   int64  `json:"start,omitempty"`   // initial clock offset in seconds
	SameDir bool   `json:"samedir,omitempty"` // all action ids share their first byte (one cache subdirectory)
	DirByte int    `json:"dirbyte,omitempty"` // with SameDir: that first byte (0 = 0x10); the first and the last subdirectories of the scan are the interesting ones
	Sizes []int  `json:"sizes"`
	Steps []Step `json:"steps"`
	// NoSubdir: one of the cache's 256 subdirectories (one that holds none of the plan's files) is missing,
	// as after a partial restore or a clean-up by hand; Trim has to do all its work in the others
	NoSubdir string `json:"no_subdir,omitempty"`
	// Sched decides the interleaving of whatever goroutines the code under test itself starts (the
	// histories are driven by one task)
	Sched simrt.Sched `json:"sched"`
}

const (
	nIDs = 3
	hour = int64(3600)
	day  = 24 * hour
)

// boundary-biased durations in seconds
var advances = []int64{1, 59 * 60, 61 * 60, day - 60, day, day + 60, 4*day + 23*hour, 5*day - 60, 5 * day, 5*day + 60,
	5*day + hour - 60, 5*day + hour - 1, 5*day + hour, 5*day + hour + 1, 5*day + hour + 60, 6 * day, 30 * day, 2 * hour, 12 * hour, 3 * day}

var recordOffsets = []int64{0, 1, hour, day - 60, day - 1, day, day + 1, day + 60, 30 * day, -1, -(hour - 1), -hour, -(hour + 1), -day}

var foreignNames = []string{"10/10-d/keep", "10/0f-a/keep", "ff/00-d/keep", "README", "fuzz/x", "00/note.txt", "00/abc-x", "7f/name-ab", "ab/0123-a.tmp", "trimx.txt", "fuzz/seed-d", "othertool/index-a", "fuzz/corpus/x-a"}

// genDur draws a duration in seconds: short gaps (decide whether a use
// refreshes the mtime), values around the three thresholds of the statement with
// jitter of up to two hours either way, exact boundary values, and long gaps.
func genDur(t *rapid.T, label string) int64 {
	switch rapid.IntRange(0, 9).Draw(t, label+"kind") {
	case 0, 1, 2:
		return rapid.Int64Range(1, 2*hour).Draw(t, label+"small")
	case 3:
		return rapid.SampledFrom(advances).Draw(t, label+"exact")
	case 4, 5, 6:
		return rapid.SampledFrom([]int64{day, 5 * day, 5*day + hour}).Draw(t, label+"base") + rapid.Int64Range(-2*hour, 2*hour).Draw(t, label+"jitter")
	case 7:
		return rapid.SampledFrom([]int64{day, 5 * day, 5*day + hour}).Draw(t, label+"base") + rapid.SampledFrom([]int64{-60, -1, 0, 1, 60}).Draw(t, label+"edge")
	case 8:
		return rapid.Int64Range(hour, 6*day).Draw(t, label+"mid")
	}
	return rapid.SampledFrom([]int64{6 * day, 30 * day, 400 * day}).Draw(t, label+"big")
}

func genJitter(t *rapid.T) int64 {
	if rapid.Bool().Draw(t, "edge") {
		return rapid.SampledFrom([]int64{-3600, -61, -60, -1, 0, 1, 60, 61, 3600}).Draw(t, "edgejitter")
	}
	return rapid.Int64Range(-5400, 5400).Draw(t, "jitter")
}

func genPlan(t *rapid.T, tier string) any {
	p := &Plan{}
	if rapid.Bool().Draw(t, "offhour") {
		// the clock does not start on a whole hour or day
		p.Start = rapid.Int64Range(1, day-1).Draw(t, "start")
	}
	nc := rapid.IntRange(1, 3).Draw(t, "ncontents")
	for i := 0; i < nc; i++ {
		p.Sizes = append(p.Sizes, rapid.SampledFrom([]int{0, 1, 100, 5000}).Draw(t, "size"))
	}
	max := 16
	if tier == "thorough" {
		max = 30
	}
	p.SameDir = rapid.Bool().Draw(t, "samedir")
	if p.SameDir {
		p.DirByte = rapid.SampledFrom([]int{0, 0, 0xff, 0xfe, 0xfc, 0x01}).Draw(t, "dirbyte")
	}
	jumps := rapid.IntRange(0, 3).Draw(t, "jumps") == 0
	n := rapid.IntRange(2, max).Draw(t, "nsteps")
	if rapid.IntRange(0, 2).Draw(t, "template") == 0 {
		// scenario: store an entry, look it up twice (each time in one of the three ways, after a gap
		// on either side of the one-hour refresh granularity), then trim near a threshold counted
		// from the last of those uses
		id := rapid.IntRange(0, nIDs-1).Draw(t, "tid")
		c := rapid.IntRange(0, nc-1).Draw(t, "tcontent")
		p.Steps = append(p.Steps, Step{Kind: "put", ID: id, Content: c})
		for i := 0; i < 2; i++ {
			p.Steps = append(p.Steps, Step{Kind: "touch", ID: id,
				Secs:   rapid.SampledFrom([]int64{60, 30 * 60, 59 * 60, 61 * 60, 90 * 60, 2 * hour}).Draw(t, "tgap"),
				Lookup: rapid.SampledFrom([]string{"get", "getbytes", "getfile"}).Draw(t, "tlookup")})
		}
		p.Steps = append(p.Steps, Step{Kind: "trimat", ID: id, Content: c,
			Target: rapid.SampledFrom([]string{"index", "data"}).Draw(t, "ttarget"),
			Base:   rapid.SampledFrom([]int64{5 * day, 5*day + hour}).Draw(t, "tbase"),
			Secs:   rapid.SampledFrom([]int64{-3600, -61, -60, -1, 0, 1, 60, 61, 3600}).Draw(t, "tjitter")})
	}
	if rapid.IntRange(0, 9).Draw(t, "looktemplate") == 0 {
		// scenario: an entry a little under five days old is looked up by another goroutine while a due Trim
		// scans; the next Trim, a day or more later, must still find it recently used
		id := rapid.IntRange(0, nIDs-1).Draw(t, "lid")
		c := rapid.IntRange(0, nc-1).Draw(t, "lcontent")
		p.Steps = append(p.Steps,
			Step{Kind: "put", ID: id, Content: c},
			Step{Kind: "advance", Secs: rapid.SampledFrom([]int64{3 * day, 4 * day, 4*day + 23*hour, 5*day - 60}).Draw(t, "lage")},
			Step{Kind: "trim", ID: id, Look: true, Nth: rapid.SampledFrom([]int{0, 1, 16, 17, 100, 255}).Draw(t, "lat")},
			Step{Kind: "advance", Secs: rapid.SampledFrom([]int64{day + 60, day + hour, 2 * day, 4 * day}).Draw(t, "lgap")},
			Step{Kind: "trim", ID: id})
	}
	for i := 0; i < n; i++ {
		s := Step{ID: rapid.IntRange(0, nIDs-1).Draw(t, "id")}
		switch k := rapid.IntRange(0, 26).Draw(t, "kind"); {
		case k == 26:
			// the process running Trim stops before one of its file operations
			s.Kind = "trimcrash"
			s.Secs = int64(rapid.IntRange(0, 900).Draw(t, "crashop"))
		case k == 20 || k == 21:
			// macro: let less than two hours pass, then look the entry up
			s.Kind = "touch"
			s.Secs = rapid.Int64Range(1, 2*hour).Draw(t, "gap")
			s.Lookup = rapid.SampledFrom([]string{"get", "getbytes", "getfile"}).Draw(t, "lookup")
		case k == 22 || k == 23 || k == 24:
			// macro: move the clock to (last use of one entry file) + threshold + jitter, then Trim
			s.Kind = "trimat"
			s.Target = rapid.SampledFrom([]string{"index", "data"}).Draw(t, "target")
			s.Content = rapid.IntRange(0, nc-1).Draw(t, "content")
			s.Base = rapid.SampledFrom([]int64{5 * day, 5*day + hour}).Draw(t, "base")
			s.Secs = genJitter(t)
		case k == 25:
			// macro: move the clock to (trim record) + 24h + jitter, then Trim
			s.Kind = "trimrec"
			s.Base = day
			s.Secs = genJitter(t)
		case k <= 3:
			s.Kind = "put"
			s.Content = rapid.IntRange(0, nc-1).Draw(t, "content")
		case k == 4:
			s.Kind = "get"
		case k == 5:
			s.Kind = "getbytes"
		case k == 6:
			s.Kind = "getfile"
		case k == 7:
			s.Kind = "outputfile"
			s.Content = rapid.IntRange(0, nc-1).Draw(t, "content")
		case k <= 11:
			s.Kind = "advance"
			s.Secs = genDur(t, "adv")
		case k <= 14:
			s.Kind = "trim"
		case k == 15:
			s.Kind = "record"
			s.Record = rapid.SampledFrom([]string{"valid", "valid", "valid", "garbage", "empty", "missing"}).Draw(t, "record")
			if rapid.Bool().Draw(t, "recexact") {
				s.Secs = rapid.SampledFrom(recordOffsets).Draw(t, "offset")
			} else {
				s.Secs = genDur(t, "rec")
			}
		case k == 16:
			s.Kind = "plant"
			s.Target = rapid.SampledFrom(foreignNames).Draw(t, "foreign")
			s.Secs = rapid.SampledFrom([]int64{0, 6 * day, 400 * day}).Draw(t, "age")
		case k <= 18:
			s.Kind = "setage"
			s.Target = rapid.SampledFrom([]string{"index", "data"}).Draw(t, "target")
			s.Content = rapid.IntRange(0, nc-1).Draw(t, "content")
			s.Secs = genDur(t, "age")
		default:
			if jumps {
				s.Kind = "jump"
				s.Secs = -genDur(t, "back")
			} else {
				s.Kind = "advance"
				s.Secs = genDur(t, "adv2")
			}
		}
		if (s.Kind == "trim" || s.Kind == "trimat" || s.Kind == "trimrec") && rapid.IntRange(0, 3).Draw(t, "rmfault") == 0 {
			// one removal of this Trim fails (a file the process may not unlink)
			s.Errno = rapid.SampledFrom([]string{"EPERM", "EBUSY", "EIO", "EACCES"}).Draw(t, "errno")
			s.Nth = rapid.IntRange(0, 4).Draw(t, "nth")
			if rapid.IntRange(0, 2).Draw(t, "recfault") == 0 {
				// the trim record cannot be read this time (I/O error, permission): like a corrupt or missing record
				s.FaultOp = rapid.SampledFrom([]string{"open", "read", "write"}).Draw(t, "faultop")
				s.Nth = 0
			}
		}
		if (s.Kind == "trim" || s.Kind == "trimat" || s.Kind == "trimrec") && s.Errno == "" && rapid.IntRange(0, 4).Draw(t, "during") == 0 {
			// time passes while the trim scans (a slow disk, a suspended laptop, a clock correction)
			s.During = rapid.SampledFrom([]int64{1, 121, 600, 59 * 60}).Draw(t, "duringsecs")
			s.Nth = rapid.SampledFrom([]int{0, 1, 16, 17, 100, 255}).Draw(t, "duringat")
		}
		if (s.Kind == "trim" || s.Kind == "trimat" || s.Kind == "trimrec") && s.Errno == "" && s.During == 0 && rapid.IntRange(0, 3).Draw(t, "look") == 0 {
			s.Look = true
			s.Nth = rapid.SampledFrom([]int{0, 1, 16, 17, 100, 255}).Draw(t, "lookat")
		}
		p.Steps = append(p.Steps, s)
	}
	if rapid.IntRange(0, 7).Draw(t, "nosubdir") == 0 {
		p.NoSubdir = rapid.SampledFrom([]string{"00", "01", "80", "fe"}).Draw(t, "nosubdirname")
	}
	p.Sched = gen.Sched(t, 300)
	return p
}

type fileModel struct {
	lastUse time.Time // latest instant the file was stored / looked up / aged to
	known   bool
}

func snapshot(dir string) map[string]string {
	m := map[string]string{}
	filepath.Walk(dir, func(p string, fi os.FileInfo, err error) error {
		if err == nil && !fi.IsDir() {
			b, _ := os.ReadFile(p)
			rel, _ := filepath.Rel(dir, p)
			m[rel] = string(b)
		}
		return nil
	})
	return m
}

func run(t *testing.T, plan any, keep bool) *simcheck.Outcome {
	p := plan.(*Plan)
	out := &simcheck.Outcome{}
	dir := cachekit.Dir()
	cachekit.Wipe(dir)
	simos.Reset()
	simtime.Reset()

	contents := make([][]byte, len(p.Sizes))
	outIDs := make([]cache.OutputID, len(p.Sizes))
	for i, sz := range p.Sizes {
		contents[i] = cachekit.Content(i+1, sz)
		outIDs[i] = cachekit.OutputID(contents[i])
	}
	stored := make([]int, nIDs)
	for i := range stored {
		stored[i] = -1
	}
	// model of last use per entry file, keyed by path relative to dir
	files := map[string]*fileModel{}
	rel := func(p string) string { r, _ := filepath.Rel(dir, p); return r }
	use := func(path string, at time.Time) {
		k := rel(path)
		fm := files[k]
		if fm == nil {
			fm = &fileModel{}
			files[k] = fm
		}
		if !fm.known || at.After(fm.lastUse) {
			fm.lastUse = at
		}
		fm.known = true
	}
	foreign := map[string]string{}
	// model of the trim record: the instant of the last *completed* trim (set by Trim calls that
	// returned and by the steps that rewrite trim.txt), not whatever the file holds right now
	modelRec := ""
	modelRecOK := false
	crashes, rmFaults, recFaults, recWriteFaults, clockDuring := 0, 0, 0, 0, 0
	lookHits, lookDuringScan := 0, 0
	subdirMissing, trimsWithMissingSubdir := false, 0
	trimsDue, trimsNotDue, removed, keptNearBoundary := 0, 0, 0, 0
	jumped := false

	sched := p.Sched
	if sched.Policy == "" {
		sched = simrt.Sched{Policy: "random", Seed: 1} // plans recorded before schedules were drawn
	}
	rep := simrt.Run(t, simrt.Options{Sched: sched, Strict: true, MaxSteps: 400000, KeepTrace: keep}, func(s *simrt.Sim) {
		c, err := cache.Open(dir)
		if err != nil {
			out.Inconclusive = "cache.Open: " + err.Error()
			return
		}
		simtime.Advance(time.Duration(p.Start) * time.Second)
		if p.NoSubdir != "" {
			inUse := false
			for i := 0; i < nIDs; i++ {
				id := cachekit.ActionID(i)
				if p.SameDir {
					id[0] = 0x10
					if p.DirByte != 0 {
						id[0] = byte(p.DirByte)
					}
				}
				inUse = inUse || fmt.Sprintf("%02x", id[0]) == p.NoSubdir
			}
			for _, o := range outIDs {
				inUse = inUse || fmt.Sprintf("%02x", o[0]) == p.NoSubdir
			}
			for _, n := range foreignNames {
				inUse = inUse || strings.HasPrefix(n, p.NoSubdir+"/")
			}
			if !inUse && os.Remove(filepath.Join(dir, p.NoSubdir)) == nil {
				subdirMissing = true
			}
		}
		for si, st := range p.Steps {
			now := simtime.Now()
			id := cachekit.ActionID(st.ID)
			if p.SameDir {
				id[0] = 0x10
				if p.DirByte != 0 {
					id[0] = byte(p.DirByte)
				}
			}
			where := fmt.Sprintf("step %d %s", si, st.Kind)
			advanceTo := func(target time.Time) {
				if target.After(now) {
					simtime.Advance(target.Sub(now))
					now = simtime.Now()
				}
			}
			switch st.Kind {
			case "touch":
				simtime.Advance(time.Duration(st.Secs) * time.Second)
				now = simtime.Now()
				st.Kind = st.Lookup
			case "trimat":
				var path string
				if st.Target == "index" {
					path = cachekit.IndexPath(dir, id)
				} else {
					path = cachekit.DataPath(dir, outIDs[st.Content])
				}
				if fm := files[rel(path)]; fm != nil && fm.known {
					advanceTo(fm.lastUse.Add(time.Duration(st.Base+st.Secs) * time.Second))
				}
				st.Kind = "trim"
			case "trimrec":
				if modelRecOK {
					if v, err := strconv.ParseInt(modelRec, 10, 64); err == nil {
						advanceTo(time.Unix(v+st.Base+st.Secs, 0))
					}
				}
				st.Kind = "trim"
			}
			switch st.Kind {
			case "put":
				if err := c.PutBytes(id, contents[st.Content]); err != nil {
					out.Violate("put-error", "%s: %v", where, err)
					return
				}
				stored[st.ID] = st.Content
				// A store writes the index entry anew: its age is counted from this store, whatever
				// the clock said at earlier uses (this differs from "latest use" only after a backward
				// clock jump, a fault the statement does not define; lookups never make an entry older).
				if fm := files[rel(cachekit.IndexPath(dir, id))]; fm != nil {
					fm.known = false
				}
				use(cachekit.IndexPath(dir, id), now)
				use(cachekit.DataPath(dir, outIDs[st.Content]), now)
			case "get":
				if _, err := c.Get(id); err == nil {
					use(cachekit.IndexPath(dir, id), now)
				}
			case "getbytes", "getfile":
				var err error
				var e cache.Entry
				if st.Kind == "getbytes" {
					_, e, err = c.GetBytes(id)
				} else {
					_, e, err = c.GetFile(id)
				}
				if err == nil {
					use(cachekit.IndexPath(dir, id), now)
					// (GetBytes also succeeds for the empty output when its file is gone - nothing hashes to the
					// empty hash - and a file that does not exist cannot have been used)
					if _, serr := os.Stat(cachekit.DataPath(dir, e.OutputID)); serr == nil {
						use(cachekit.DataPath(dir, e.OutputID), now)
					}
				} else if _, serr := os.Stat(cachekit.IndexPath(dir, id)); serr == nil {
					// the index entry was found and read (that is a use of it) although the lookup as a
					// whole failed because an earlier Trim had removed the output file
					use(cachekit.IndexPath(dir, id), now)
				}
			case "outputfile":
				name := c.OutputFile(outIDs[st.Content])
				if _, err := os.Stat(name); err == nil {
					use(name, now)
				}
			case "advance":
				simtime.Advance(time.Duration(st.Secs) * time.Second)
			case "jump":
				simtime.Advance(time.Duration(st.Secs) * time.Second)
				jumped = true
			case "record":
				path := filepath.Join(dir, "trim.txt")
				switch st.Record {
				case "valid":
					os.WriteFile(path, []byte(strconv.FormatInt(now.Unix()-st.Secs, 10)), 0o666)
					modelRec, modelRecOK = strconv.FormatInt(now.Unix()-st.Secs, 10), true
				case "garbage":
					os.WriteFile(path, []byte("not a number"), 0o666)
					modelRecOK = false
				case "empty":
					os.WriteFile(path, nil, 0o666)
					modelRecOK = false
				case "missing":
					os.Remove(path)
					modelRecOK = false
				}
			case "plant":
				path := filepath.Join(dir, st.Target)
				os.MkdirAll(filepath.Dir(path), 0o777)
				body := "foreign " + st.Target
				os.WriteFile(path, []byte(body), 0o666)
				simos.SetMtime(path, now.Add(-time.Duration(st.Secs)*time.Second))
				if d := filepath.Dir(path); strings.HasSuffix(d, "-a") || strings.HasSuffix(d, "-d") {
					// a foreign non-empty directory with an entry-like name, as old as its file
					simos.SetMtime(d, now.Add(-time.Duration(st.Secs)*time.Second))
				}
				foreign[st.Target] = body
			case "setage":
				var path string
				if st.Target == "index" {
					path = cachekit.IndexPath(dir, id)
				} else {
					path = cachekit.DataPath(dir, outIDs[st.Content])
				}
				if _, err := os.Stat(path); err == nil {
					at := now.Add(-time.Duration(st.Secs) * time.Second)
					simos.SetMtime(path, at)
					k := rel(path)
					files[k] = &fileModel{lastUse: at, known: true}
				}
			case "trim", "trimcrash":
				// when did a trim last complete, according to the history?
				recPath := filepath.Join(dir, "trim.txt")
				recBytes, recErr := []byte(modelRec), error(nil)
				if !modelRecOK {
					recErr = os.ErrNotExist
				}
				state := "due" // missing / unparsable / >= 24h old
				if recErr == nil {
					if v, perr := strconv.ParseInt(string(recBytes), 10, 64); perr == nil {
						d := now.Unix() - v
						switch {
						case d < 0:
							state = "future" // the statement is silent: only (a) and (b) are asserted
						case d < day:
							state = "notdue"
						}
					} else if strings.TrimSpace(string(recBytes)) != string(recBytes) {
						state = "future" // never generated; treated as don't-care
					}
				}
				before := snapshot(dir)
				crashed := false
				unremovable := map[string]bool{} // entry files whose removal was made to fail during this Trim
				looked := map[string]bool{}      // entry files that a lookup concurrent with this Trim found
				if st.Kind == "trimcrash" {
					// the process running Trim stops before its k-th file operation
					crashes++
					proc := 100 + crashes
					simos.Arm([]simos.Fault{{Proc: proc, Nth: int(st.Secs), Action: "halt-before"}})
					done := false
					s.Go("trimmer", proc, func() {
						defer func() {
							done = true
							if r := recover(); r != nil {
								if _, ok := r.(simos.Halt); ok {
									crashed = true
								}
								panic(r)
							}
						}()
						if c2, err := cache.Open(dir); err == nil {
							c2.Trim()
						}
					})
					simrt.Block("join", func() bool { return done })
					simos.Disarm()
				} else if st.Errno != "" {
					nf := len(simos.FiredAt())
					if st.FaultOp == "write" {
						// the new trim record cannot be written (disk full, quota): this Trim may report failure, later ones must still work
						simos.Arm([]simos.Fault{{Proc: -1, Op: "write", Class: "trim", Nth: 0, Action: "error", Errno: "ENOSPC"}})
					} else if st.FaultOp != "" {
						simos.Arm([]simos.Fault{{Proc: -1, Op: st.FaultOp, Class: "trim", Nth: 0, Action: "error", Errno: st.Errno}})
					} else {
						simos.Arm([]simos.Fault{{Proc: -1, Op: "remove", Nth: st.Nth, Action: "error", Errno: st.Errno}})
					}
					err := c.Trim()
					simos.Disarm()
					for _, f := range simos.FiredAt()[nf:] {
						if st.FaultOp == "write" {
							recWriteFaults++
							state = "failed" // the scan may be complete, the record is whatever the failed write left: follow the file
							continue
						}
						if st.FaultOp != "" {
							recFaults++
							// An unreadable record is like a corrupt or missing one: a trim that the history makes
							// due must still do all of its work; one that the history makes not due may or may not run.
							if state == "notdue" {
								state = "future"
							}
							continue
						}
						unremovable[rel(strings.TrimPrefix(f, "remove "))] = true
						rmFaults++
					}
					if err != nil && st.FaultOp == "" {
						state = "failed" // a Trim that reports failure claims nothing beyond the keep and foreign-file clauses
					}
				} else {
					if st.During > 0 {
						listings := 0
						simos.OnOp(func(proc int, op, class, path string) {
							if op == "readdir" {
								if listings == st.Nth {
									simtime.Advance(time.Duration(st.During) * time.Second)
									clockDuring++
								}
								listings++
							}
						})
					}
					gate, lookDone := false, true
					if st.Look {
						listings := 0
						lookDone = false
						simos.OnOp(func(proc int, op, class, path string) {
							if op == "readdir" {
								if listings == st.Nth && !gate {
									gate = true
									lookDuringScan++
								}
								listings++
							}
						})
						s.Go("looker", 0, func() {
							defer func() { lookDone = true }()
							simrt.Block("look.gate", func() bool { return gate })
							_, e, err := c.GetBytes(id)
							if err == nil {
								lookHits++
								looked[rel(cachekit.IndexPath(dir, id))] = true
								looked[rel(cachekit.DataPath(dir, e.OutputID))] = true
							} else if _, serr := os.Stat(cachekit.IndexPath(dir, id)); serr == nil {
								looked[rel(cachekit.IndexPath(dir, id))] = true
							}
						})
					}
					err := c.Trim()
					simos.OnOp(nil)
					gate = true // a Trim that was not due lists nothing: the lookup then simply follows it
					simrt.Block("look.join", func() bool { return lookDone })
					if subdirMissing {
						// an error is not demanded and not forbidden here; the clauses below are asserted either way
						trimsWithMissingSubdir++
						err = nil
					}
					if err != nil {
						out.Violate("trim-error", "%s: Trim failed in a fault-free run: %v", where, err)
						return
					}
				}
				end := simtime.Now() // later than now if time passed during the Trim
				after := snapshot(dir)
				if crashed && state != "failed" {
					state = "crashed" // only the keep and foreign-file clauses apply to an interrupted trim
				}
				// (b) foreign files untouched
				for name, body := range foreign {
					if got, ok := after[name]; !ok || got != body {
						out.Violate("foreign-touched", "%s at %s: non-entry file %s was removed or changed", where, now.UTC().Format(time.RFC3339), name)
					}
				}
				var names []string
				for k := range before {
					names = append(names, k)
				}
				sort.Strings(names)
				// when the clock moved during the Trim, "the last five days" is counted from its end (nothing that
				// any reading of the clock makes recent may go) and "unused for longer than five days and an hour"
				// from its start (everything that every reading makes stale must go)
				keepLimit := end.Add(-5 * 24 * time.Hour)
				dropLimit := now.Add(-5*24*time.Hour - time.Hour)
				for _, k := range names {
					isEntry := len(filepath.Dir(k)) == 2 && (strings.HasSuffix(k, "-a") || strings.HasSuffix(k, "-d"))
					_, still := after[k]
					if !isEntry {
						if !still && k != "trim.txt" {
							out.Violate("foreign-touched", "%s: non-entry file %s was removed", where, k)
						}
						continue
					}
					fm := files[k]
					if fm == nil || !fm.known {
						continue // not created through the API or setage (cannot happen)
					}
					if !still {
						removed++
					}
					// (a) used within the last five days => must survive, byte for byte
					// (a lookup in flight while this very Trim scans is neither before nor after it: for the files it found,
					// this Trim is judged on the uses that preceded it - a stale file may go or stay - and the lookup
					// counts in full from the next Trim on)
					if !fm.lastUse.Before(keepLimit) {
						if !still || after[k] != before[k] {
							out.Violate("trim-removed-recent", "%s at %s: entry file %s last stored/looked up at %s (%s ago, within five days) was removed or changed by Trim",
								where, now.UTC().Format(time.RFC3339), k, fm.lastUse.UTC().Format(time.RFC3339), now.Sub(fm.lastUse))
						}
						if fm.lastUse.Before(keepLimit.Add(2 * time.Hour)) {
							keptNearBoundary++
						}
					}
					switch state {
					case "notdue":
						if !still {
							out.Violate("trim-not-due", "%s: a trim completed %s ago (< 24h) but entry file %s was removed", where, time.Duration(now.Unix()-mustInt(recBytes))*time.Second, k)
						}
					case "due":
						if fm.lastUse.Before(dropLimit) && still && !unremovable[k] && !looked[k] {
							out.Violate("trim-kept-stale", "%s at %s: trim was due, entry file %s unused since %s (%s, more than five days and an hour) is still there",
								where, now.UTC().Format(time.RFC3339), k, fm.lastUse.UTC().Format(time.RFC3339), now.Sub(fm.lastUse))
						}
					}
				}
				switch state {
				case "notdue":
					trimsNotDue++
					if after["trim.txt"] != before["trim.txt"] {
						out.Violate("trim-not-due", "%s: a trim completed less than a day ago but the trim record changed from %q to %q", where, before["trim.txt"], after["trim.txt"])
					}
				case "due":
					trimsDue++
					if got, perr := strconv.ParseInt(after["trim.txt"], 10, 64); perr != nil || got < now.Unix() || got > end.Unix() {
						out.Violate("trim-record", "%s: trim ran from unix %d to %d but the record holds %q", where, now.Unix(), end.Unix(), after["trim.txt"])
					}
				}
				for k := range files {
					if _, ok := after[k]; !ok {
						delete(files, k)
					}
				}
				for k := range looked {
					if _, ok := after[k]; ok {
						use(filepath.Join(dir, k), now)
					}
				}
				if state == "crashed" {
					// The process died inside Trim. If the record now names this very trim, the trim
					// counts as completed - and then it must really have finished its scan: a record
					// that claims completion while stale entries survive makes the next Trim skip them.
					if got, ok := after["trim.txt"]; ok && got != before["trim.txt"] && got == strconv.FormatInt(now.Unix(), 10) {
						dropLimit := now.Add(-5*24*time.Hour - time.Hour)
						for _, k := range names {
							fm := files[k]
							if _, still := after[k]; still && fm != nil && fm.known && fm.lastUse.Before(dropLimit) {
								out.Violate("trim-record", "%s: the trimming process stopped mid-way, yet trim.txt already records this trim (%s) while entry file %s, unused since %s, is still there: the next Trim within a day will skip it", where, got, k, fm.lastUse.UTC().Format(time.RFC3339))
							}
						}
						modelRec, modelRecOK = got, true
					}
				}
				switch state {
				case "due":
					modelRec, modelRecOK = after["trim.txt"], true // this trim completed (the record holds an instant between its start and its end)
				case "future", "failed":
					// the statement is silent on what happened: follow the file
					if b, err := os.ReadFile(recPath); err == nil {
						if _, perr := strconv.ParseInt(string(b), 10, 64); perr == nil {
							modelRec, modelRecOK = string(b), true
						} else {
							modelRecOK = false
						}
					} else {
						modelRecOK = false
					}
				}
			}
			if os.Getenv("VERIF_C13_DEBUG") != "" {
				fmt.Fprintf(os.Stderr, "DEBUG step %d %s now=%s\n", si, st.Kind, simtime.Now().UTC().Format(time.RFC3339))
				var ks []string
				for k := range files {
					ks = append(ks, k)
				}
				sort.Strings(ks)
				for _, k := range ks {
					mt, ok := simos.Mtime(filepath.Join(dir, k))
					fmt.Fprintf(os.Stderr, "   %s model=%s known=%v real=%s(%v)\n", k[:12], files[k].lastUse.UTC().Format(time.RFC3339), files[k].known, mt.UTC().Format(time.RFC3339), ok)
				}
			}
			if out.Violation != nil {
				return
			}
		}
	})
	out.TraceHash, out.Steps, out.SimTime, out.Trace = rep.TraceHash, rep.Steps, rep.SimTime, rep.Trace
	simcheck.Panics(out, rep.Panics)
	if rep.Deadlock || rep.StepCap {
		out.Inconclusive = "single-task run did not finish: " + rep.DescribeBlocked()
	}
	out.Nontrivial = trimsDue+trimsNotDue > 0
	out.SimSeconds = simtime.Offset().Seconds()
	if out.SimSeconds < 0 {
		out.SimSeconds = 0
	}
	out.Count("fired_trim_process_halted", int64(rep.Halts))
	out.Count("fired_remove_failed_during_trim", int64(rmFaults))
	out.Count("fired_trim_record_unreadable", int64(recFaults))
	out.Count("fault_clock_moved_during_trim", int64(clockDuring))
	out.Count("trims_with_a_cache_subdirectory_missing", int64(trimsWithMissingSubdir))
	out.Count("lookup_released_during_trim_scan", int64(lookDuringScan))
	out.Count("lookup_concurrent_with_trim_hit", int64(lookHits))
	out.Count("fired_trim_record_write_failed", int64(recWriteFaults))
	out.Count("trims_due", int64(trimsDue))
	out.Count("trims_not_due", int64(trimsNotDue))
	out.Count("entry_files_removed_by_trim", int64(removed))
	out.Count("probe_kept_within_2h_of_5d_boundary", int64(keptNearBoundary))
	out.Count("clock_reads", simtime.Reads)
	if jumped {
		out.Count("fault_clock_jump_backwards_runs", 1)
	}
	for _, st := range p.Steps {
		if st.Kind == "record" {
			out.Count("record_"+st.Record, 1)
		}
		if st.Kind == "jump" {
			out.Count("fault_clock_jump_backwards", 1)
		}
	}
	_ = bytes.Equal
	return out
}

func mustInt(b []byte) int64 { v, _ := strconv.ParseInt(string(b), 10, 64); return v }

var harness = &simcheck.Harness{
	Property: "C13",
	Level:    "exploration",
	Rule: "rapid draws a history of up to 16 (quick) / 30 (thorough) steps: Put, Get, GetBytes, GetFile, OutputFile, clock advances drawn mostly from boundary values " +
		"(1s ... 24h+-1m, 5d+-1m, 5d1h+-1s/1m, 30d), Trim, trim-record rewrites (valid with recent/old/future offsets, garbage, empty, missing), foreign files, " +
		"directly aged entry files, and (a quarter of the plans) backward clock jumps; plus macro steps (look an entry up after a gap of under two hours; move the clock to an entry file's last use + 5d or 5d1h +- jitter and Trim; move it to the trim record + 24h +- jitter and Trim; a Trim whose process halts before its k-th file operation; a Trim one of whose removals fails with EPERM/EBUSY/EIO/EACCES - that file may stay, every other stale entry must still go; a Trim during which the trim record cannot be opened or read - a due trim must still do all its work; a Trim whose record write fails with ENOSPC - it may report failure, later trims must work; a Trim during whose scan the clock moves forward by 1 s to 59 min; an eighth of the plans with one of the cache's subdirectories missing; a Trim during whose scan another goroutine looks an entry up on the same handle, released at a drawn directory listing and then scheduled freely), half the plans with all action ids in one cache subdirectory, a third starting with a store / two lookups / trim-at-threshold scenario, a tenth with a store / age / lookup-during-trim / next-trim scenario, foreign non-empty directories with entry-like names inside an entry subdirectory; non-trivial = the history contains a Trim; " +
		"distinct by the hash of the intercepted file-operation sequence",
	Gen:     genPlan,
	NewPlan: func() any { return &Plan{} },
	Run:     run,
	Components: map[string]string{
		"cache, lockedfile, filelock": "real code from /repo's working tree, recompiled with substituted imports",
		"clock":                       "simulated: time.Now in cache -> verif/sim/time (fake clock + harness offset), whole seconds",
		"file mtimes":                 "simulated: shadow table in verif/sim/os stamped from the simulated clock",
		"file system":                 "real kernel file system in a private directory",
	},
	Assumptions: []string{
		"a Get (index-only lookup) counts as a use of the index file only, GetBytes/GetFile/OutputFile/Put as a use of the data file too (narrowest reading of 'looked up')",
		"trim records in the future are don't-care for the due/not-due clauses (the statement is silent); keep and foreign-file clauses always apply",
		"under backward clock jumps (a fault kind the statement does not define) an entry's age is counted from its latest store, or from any later lookup whose clock reading is newer; with a monotonic clock this is simply the latest use",
		"the simulated clock moves in whole seconds (the trim record has one-second granularity)",
	},
	RequiredCounters: []string{"trims_due", "trims_not_due", "clock_reads", "entry_files_removed_by_trim"},
}

func TestSim(t *testing.T) { simcheck.Main(t, harness) }
