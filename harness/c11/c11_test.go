// Package c11 decides C11: concurrent cache users never observe corrupt or
// foreign data. Several simulated processes (each with its own *Cache on one
// directory), each with several goroutines, Put and look up overlapping ids;
// every file operation of every task is a scheduler decision, large reads and
// writes are torn at page boundaries.
package c11

import (
	"bytes"
	"crypto/sha256"
	"fmt"
	"os"
	"testing"
	"time"

	"github.com/rogpeppe/go-internal/cache"
	"pgregory.net/rapid"

	"verif/harness/cachekit"
	simcheck "verif/sim/check"
	"verif/sim/gen"
	simos "verif/sim/os"
	simrt "verif/sim/rt"
	simtime "verif/sim/time"
)

type Op struct {
	Kind    string `json:"kind"` // put putreader getbytes getfile trim; prefix only: dropdata (the content's output file is gone, as after a Trim)
	ID      int    `json:"id"`
	Content int    `json:"content,omitempty"`
}

type TaskPlan struct {
	Proc int  `json:"proc"`
	Ops  []Op `json:"ops"`
}

type Plan struct {
	Sizes     []int       `json:"sizes"`
	Prefix    []Op        `json:"prefix,omitempty"` // executed one after the other before the concurrent phase
	AgeHours  int         `json:"age_hours,omitempty"` // simulated time between the prefix and the concurrent phase (entries older than the mtime-refresh granularity are refreshed by lookups)
	Tasks     []TaskPlan  `json:"tasks"`
	Torn      bool        `json:"torn"`
	ReadChunk int         `json:"read_chunk"`
	Chunk     int         `json:"chunk"`
	Sched     simrt.Sched `json:"sched"`
}

const nIDs = 3

func genPlan(t *rapid.T, tier string) any {
	p := &Plan{}
	nc := rapid.IntRange(1, 4).Draw(t, "ncontents")
	for i := 0; i < nc; i++ {
		p.Sizes = append(p.Sizes, rapid.SampledFrom([]int{0, 1, 2, 100, 5000, 9000, 40000}).Draw(t, "size"))
	}
	// per id: identical regime (every writer stores the same content) or differing
	fixed := make([]int, nIDs)
	for i := range fixed {
		fixed[i] = -1
		if rapid.Bool().Draw(t, "identical") {
			fixed[i] = rapid.IntRange(0, nc-1).Draw(t, "fixedcontent")
		}
	}
	// hot id: most plans concentrate on one id and two contents, so that writers and
	// readers really meet
	hot := rapid.IntRange(0, 2).Draw(t, "hot") != 0
	pickID := func() int {
		if hot && rapid.IntRange(0, 4).Draw(t, "hotid") != 0 {
			return 0
		}
		return rapid.IntRange(0, nIDs-1).Draw(t, "id")
	}
	pickContent := func() int {
		if hot {
			return rapid.IntRange(0, min(nc, 2)-1).Draw(t, "hotcontent")
		}
		return rapid.IntRange(0, nc-1).Draw(t, "content")
	}
	for k, n := 0, rapid.IntRange(0, 2).Draw(t, "nprefix"); k < n; k++ {
		op := Op{Kind: "put", ID: pickID()}
		op.Content = fixed[op.ID]
		if op.Content < 0 {
			op.Content = pickContent()
		}
		p.Prefix = append(p.Prefix, op)
	}
	if len(p.Prefix) > 0 && rapid.IntRange(0, 3).Draw(t, "dropdata") == 0 {
		// the state a Trim leaves behind: index entries whose output file is gone
		p.Prefix = append(p.Prefix, Op{Kind: "dropdata", Content: p.Prefix[rapid.IntRange(0, len(p.Prefix)-1).Draw(t, "dropwhich")].Content})
	}
	if nc >= 2 && rapid.IntRange(0, 3).Draw(t, "template") == 0 {
		// the statement's own scenario: an id that held other content is re-stored with
		// identical content by two processes while a third looks it up
		id := 0
		a, b := 0, 1
		p.Prefix = []Op{{Kind: "put", ID: id, Content: b}}
		if rapid.Bool().Draw(t, "prefixsame") {
			p.Prefix = append(p.Prefix, Op{Kind: "put", ID: id, Content: a})
		}
		look := rapid.SampledFrom([]string{"getbytes", "getfile"}).Draw(t, "look")
		p.Tasks = []TaskPlan{
			{Proc: 1, Ops: []Op{{Kind: "put", ID: id, Content: a}}},
			{Proc: 2, Ops: []Op{{Kind: rapid.SampledFrom([]string{"put", "putreader"}).Draw(t, "w2"), ID: id, Content: a}, {Kind: look, ID: id}}},
			{Proc: 3, Ops: []Op{{Kind: look, ID: id}, {Kind: look, ID: id}, {Kind: look, ID: id}}},
		}
		p.Torn = rapid.Bool().Draw(t, "torn")
		p.ReadChunk = rapid.SampledFrom([]int{64, 512, 4096, 65536}).Draw(t, "readchunk")
		p.Chunk = rapid.SampledFrom([]int{100, 4096, 1 << 20}).Draw(t, "chunk")
		p.AgeHours = rapid.SampledFrom([]int{0, 0, 2, 26}).Draw(t, "agehours")
		p.Sched = gen.Sched(t, 600)
		return p
	}
	if rapid.IntRange(0, 7).Draw(t, "restoretemplate") == 0 {
		// an index entry whose output file is gone is re-stored (possibly by two writers) while others look it up
		id := 0
		a := rapid.IntRange(0, nc-1).Draw(t, "restorecontent")
		p.Prefix = []Op{{Kind: "put", ID: id, Content: a}, {Kind: "dropdata", Content: a}}
		look := rapid.SampledFrom([]string{"getbytes", "getfile"}).Draw(t, "restorelook")
		p.Tasks = []TaskPlan{
			{Proc: 1, Ops: []Op{{Kind: rapid.SampledFrom([]string{"put", "putreader"}).Draw(t, "restorewriter"), ID: id, Content: a}}},
			{Proc: 2, Ops: []Op{{Kind: "getbytes", ID: id}, {Kind: look, ID: id}}},
			{Proc: 3, Ops: []Op{{Kind: look, ID: id}, {Kind: "getbytes", ID: id}}},
		}
		if rapid.Bool().Draw(t, "restoretwo") {
			p.Tasks = append(p.Tasks, TaskPlan{Proc: 2, Ops: []Op{{Kind: "putreader", ID: id, Content: a}}})
		}
		p.Torn = rapid.Bool().Draw(t, "torn")
		p.ReadChunk = rapid.SampledFrom([]int{64, 512, 4096, 65536}).Draw(t, "readchunk")
		p.Chunk = rapid.SampledFrom([]int{100, 4096, 1 << 20}).Draw(t, "chunk")
		p.AgeHours = rapid.SampledFrom([]int{0, 0, 2, 26}).Draw(t, "agehours")
		p.Sched = gen.Sched(t, 200)
		return p
	}
	if rapid.IntRange(0, 7).Draw(t, "trimtemplate") == 0 {
		// a writer, a trimming process and a reader meet: the Trim scans while the Put's output exists but is incomplete
		id := 0
		a := rapid.IntRange(0, nc-1).Draw(t, "trimcontent")
		w := rapid.SampledFrom([]string{"put", "putreader"}).Draw(t, "trimwriter")
		p.Tasks = []TaskPlan{
			{Proc: 1, Ops: []Op{{Kind: w, ID: id, Content: a}}},
			{Proc: 2, Ops: []Op{{Kind: "trim"}}},
			{Proc: 3, Ops: []Op{{Kind: "getbytes", ID: id}}},
		}
		p.Torn = rapid.Bool().Draw(t, "torn")
		p.ReadChunk = rapid.SampledFrom([]int{64, 512, 4096, 65536}).Draw(t, "readchunk")
		p.Chunk = rapid.SampledFrom([]int{100, 4096, 1 << 20}).Draw(t, "chunk")
		p.Sched = gen.Sched(t, 80)
		return p
	}
	np := rapid.IntRange(2, 3).Draw(t, "procs")
	maxOps := 4
	if tier == "thorough" {
		maxOps = 5
	}
	for pr := 1; pr <= np; pr++ {
		ng := rapid.IntRange(1, 2).Draw(t, "goroutines")
		for g := 0; g < ng; g++ {
			tp := TaskPlan{Proc: pr}
			n := rapid.IntRange(1, maxOps).Draw(t, "nops")
			for k := 0; k < n; k++ {
				op := Op{ID: pickID()}
				switch x := rapid.IntRange(0, 10).Draw(t, "kind"); {
				case x == 10:
					// another user of the directory trims it meanwhile: everything here is fresh, so a Trim
					// (due: there is no trim record yet) must not remove anything
					op.Kind = "trim"
				case x <= 3:
					op.Kind = "put"
				case x == 4:
					op.Kind = "putreader"
				case x <= 7:
					op.Kind = "getbytes"
				default:
					op.Kind = "getfile"
				}
				if op.Kind == "put" || op.Kind == "putreader" {
					op.Content = fixed[op.ID]
					if op.Content < 0 {
						op.Content = pickContent()
					}
				}
				tp.Ops = append(tp.Ops, op)
			}
			p.Tasks = append(p.Tasks, tp)
		}
	}
	p.Torn = rapid.IntRange(0, 3).Draw(t, "torn") != 0
	p.ReadChunk = rapid.SampledFrom([]int{64, 512, 4096, 65536}).Draw(t, "readchunk")
	p.Chunk = rapid.SampledFrom([]int{100, 4096, 1 << 20}).Draw(t, "chunk")
	p.AgeHours = rapid.SampledFrom([]int{0, 0, 2, 26}).Draw(t, "agehours")
	p.Sched = gen.Sched(t, 600)
	return p
}

type slowRead struct {
	file    string
	content int
	id      int
}

func run(t *testing.T, plan any, keep bool) *simcheck.Outcome {
	p := plan.(*Plan)
	out := &simcheck.Outcome{}
	dir := cachekit.Dir()
	cachekit.Wipe(dir)
	simos.Reset()
	simtime.Reset()
	simos.SetTorn(p.Torn)
	simos.SetReadChunk(p.ReadChunk)

	contents := make([][]byte, len(p.Sizes))
	outIDs := make([]cache.OutputID, len(p.Sizes))
	for i, sz := range p.Sizes {
		contents[i] = cachekit.Content(i+1, sz)
		outIDs[i] = cachekit.OutputID(contents[i])
	}
	// contents with equal bytes (two empty ones) are one content: canonicalise
	canon := make([]int, len(contents))
	for i := range contents {
		canon[i] = i
		for j := 0; j < i; j++ {
			if bytes.Equal(contents[i], contents[j]) {
				canon[i] = j
				break
			}
		}
	}
	tasks := make([]TaskPlan, len(p.Tasks))
	for i, tp := range p.Tasks {
		tasks[i] = TaskPlan{Proc: tp.Proc, Ops: append([]Op(nil), tp.Ops...)}
		for k := range tasks[i].Ops {
			tasks[i].Ops[k].Content = canon[tasks[i].Ops[k].Content]
		}
	}
	prefix := append([]Op(nil), p.Prefix...)
	for k := range prefix {
		prefix[k].Content = canon[prefix[k].Content]
	}
	p = &Plan{Sizes: p.Sizes, Prefix: prefix, AgeHours: p.AgeHours, Tasks: tasks, Torn: p.Torn, ReadChunk: p.ReadChunk, Chunk: p.Chunk, Sched: p.Sched}
	// which contents does the plan ever store under each id?
	planned := make([]map[int]bool, nIDs)
	for i := range planned {
		planned[i] = map[int]bool{}
	}
	for _, tp := range p.Tasks {
		for _, op := range tp.Ops {
			if op.Kind == "put" || op.Kind == "putreader" {
				planned[op.ID][op.Content] = true
			}
		}
	}
	for _, op := range p.Prefix {
		if op.Kind == "put" {
			planned[op.ID][op.Content] = true
		}
	}
	invoked := make([]map[int]bool, nIDs)   // Put(id, c) has been invoked
	completed := make([]map[int]bool, nIDs) // Put(id, c) has returned nil
	for i := range invoked {
		invoked[i] = map[int]bool{}
		completed[i] = map[int]bool{}
	}
	which := func(data []byte) int {
		for i := range contents {
			if bytes.Equal(contents[i], data) {
				return i
			}
		}
		return -1
	}

	// reach probes from the operation stream
	active := map[string]map[int]bool{} // path -> processes currently writing it
	probes := map[string]int64{}
	simos.OnOp(func(proc int, op, class, path string) {
		if class != "index" && class != "data" {
			return
		}
		switch op {
		case "write", "writeat", "truncate":
			if active[path] == nil {
				active[path] = map[int]bool{}
			}
			for q := range active[path] {
				if q != proc {
					probes["two_writers_overlap_on_one_"+class+"_file"]++
					break
				}
			}
			active[path][proc] = true
		case "read", "fstat", "stat":
			for q := range active[path] {
				if q != proc {
					probes["reader_inside_a_write_of_one_"+class+"_file"]++
					break
				}
			}
		case "close":
			delete(active[path], proc)
		}
	})
	var slow []slowRead
	// byte slices returned by earlier GetBytes calls that a consumer still holds
	type heldBytes struct {
		data    []byte
		content int
		id      int
	}
	var held []heldBytes
	lookups, hits, missesDuring, dropped, trims, aged := 0, 0, 0, 0, 0, 0
	type putRec struct{ id, content, start, end int }
	type lookRec struct {
		id, start, end, content int // content -1: miss
		tag, kind, err          string
	}
	var puts []*putRec
	var looks []lookRec

	checkLookup := func(kind string, id int, data []byte, e cache.Entry, err error, mustHit int, tag string) {
		lookups++
		if err != nil {
			if mustHit >= 0 {
				out.Violate("miss-while-restoring", "%s %s(id%d): a Put(id%d, content %d) had returned and every Put to this id stores the same content, yet the lookup failed: %v", tag, kind, id, id, mustHit, err)
			}
			missesDuring++
			return
		}
		hits++
		if sha256.Sum256(data) != e.OutputID {
			out.Violate("corrupt-data", "%s %s(id%d): %d bytes that do not hash to the reported OutputID %x", tag, kind, id, len(data), e.OutputID[:4])
			return
		}
		if int64(len(data)) != e.Size {
			out.Violate("corrupt-data", "%s %s(id%d): %d bytes but reported size %d", tag, kind, id, len(data), e.Size)
			return
		}
		c := which(data)
		if c < 0 || !invoked[id][c] {
			out.Violate("foreign-data", "%s %s(id%d): returned %d bytes (content %d) that no Put stored for this id so far", tag, kind, id, len(data), c)
			return
		}
		if mustHit >= 0 && c != mustHit {
			out.Violate("foreign-data", "%s %s(id%d): returned content %d, only content %d is ever stored for this id", tag, kind, id, c, mustHit)
		}
	}

	rep := simrt.Run(t, simrt.Options{Sched: p.Sched, Strict: true, MaxSteps: 200000, KeepTrace: keep}, func(s *simrt.Sim) {
		caches := map[int]*cache.Cache{}
		for _, tp := range p.Tasks {
			if caches[tp.Proc] == nil {
				c, err := cache.Open(dir)
				if err != nil {
					out.Inconclusive = "cache.Open: " + err.Error()
					return
				}
				caches[tp.Proc] = c
			}
		}
		last := map[int]int{}
		for _, op := range p.Prefix {
			st := s.Steps()
			if op.Kind == "dropdata" {
				os.Remove(cachekit.DataPath(dir, outIDs[op.Content]))
				dropped++
				// ids whose entry names that output are legitimately unreadable until a later Put
				// restores it: none of their earlier Puts counts as completed any more
				for id, c := range last {
					if c == op.Content {
						completed[id] = map[int]bool{}
						kept := puts[:0]
						for _, pr := range puts {
							if pr.id != id {
								kept = append(kept, pr)
							}
						}
						puts = kept
					}
				}
				continue
			}
			last[op.ID] = op.Content
			invoked[op.ID][op.Content] = true
			if err := caches[1].PutBytes(cachekit.ActionID(op.ID), contents[op.Content]); err != nil {
				out.Violate("put-error", "prefix Put failed: %v", err)
				return
			}
			completed[op.ID][op.Content] = true
			puts = append(puts, &putRec{op.ID, op.Content, st, s.Steps()})
		}
		if p.AgeHours > 0 {
			simtime.Advance(time.Duration(p.AgeHours) * time.Hour)
			aged++
		}
		remaining := len(p.Tasks)
		for ti, tp := range p.Tasks {
			tp := tp
			c := caches[tp.Proc]
			s.Go(fmt.Sprintf("p%d.g%d", tp.Proc, ti), tp.Proc, func() {
				defer func() { remaining-- }()
				for oi, op := range tp.Ops {
					tag := fmt.Sprintf("proc %d task %d op %d", tp.Proc, ti, oi)
					id := cachekit.ActionID(op.ID)
					// no-miss rule: armed when a Put of the only content planned for this id has returned
					mustHit := -1
					if len(planned[op.ID]) == 1 {
						for c := range planned[op.ID] {
							if completed[op.ID][c] {
								mustHit = c
							}
						}
					}
					opStart := s.Steps()
					switch op.Kind {
					case "put", "putreader":
						invoked[op.ID][op.Content] = true
						pr := &putRec{op.ID, op.Content, opStart, 1 << 30}
						puts = append(puts, pr)
						var err error
						if op.Kind == "put" {
							err = c.PutBytes(id, contents[op.Content])
						} else {
							_, _, err = c.Put(id, &cachekit.ChunkReader{Data: contents[op.Content], Chunk: max(p.Chunk, len(contents[op.Content])/12)})
						}
						if err != nil {
							out.Violate("put-error", "%s Put(id%d, content %d) failed without any injected fault: %v", tag, op.ID, op.Content, err)
							return
						}
						completed[op.ID][op.Content] = true
						pr.end = s.Steps()
					case "trim":
						if err := c.Trim(); err != nil {
							out.Violate("trim-error", "%s Trim failed without any injected fault: %v", tag, err)
							return
						}
						trims++
					case "getbytes":
						data, e, err := c.GetBytes(id)
						checkLookup("GetBytes", op.ID, data, e, err, mustHit, tag)
						if cidx := which(data); err == nil && cidx >= 0 {
							held = append(held, heldBytes{data, cidx, op.ID})
						}
						looks = append(looks, lookRec{op.ID, opStart, s.Steps(), which(data), tag, "GetBytes", fmt.Sprint(err)})
					case "getfile":
						file, e, err := c.GetFile(id)
						var data []byte
						if err == nil {
							var rerr error
							data, rerr = os.ReadFile(file) // immediately, atomically with respect to the schedule
							if rerr != nil {
								out.Violate("corrupt-data", "%s GetFile(id%d) named %s which cannot be read: %v", tag, op.ID, file, rerr)
								return
							}
							if cidx := which(data); cidx >= 0 {
								slow = append(slow, slowRead{file, cidx, op.ID})
							}
						}
						checkLookup("GetFile", op.ID, data, e, err, mustHit, tag)
						if err != nil {
							looks = append(looks, lookRec{op.ID, opStart, s.Steps(), -1, tag, "GetFile", fmt.Sprint(err)})
						} else {
							looks = append(looks, lookRec{op.ID, opStart, s.Steps(), which(data), tag, "GetFile", ""})
						}
					}
					if out.Violation != nil {
						return
					}
					// slow consumers: bytes returned by earlier GetBytes calls are still the caller's
					for _, hb := range held {
						if !bytes.Equal(hb.data, contents[hb.content]) {
							out.Violate("bytes-changed-under-consumer", "%s: the slice returned by an earlier GetBytes(id%d) no longer holds the content it held (a later cache call wrote into it)", tag, hb.id)
							return
						}
					}
					// slow consumers: files named by earlier GetFile calls still hold the same bytes
					for _, sr := range slow {
						if got, err := os.ReadFile(sr.file); err != nil || !bytes.Equal(got, contents[sr.content]) {
							out.Violate("file-changed-under-consumer", "%s: file named by an earlier GetFile(id%d) no longer holds the content it held (%d bytes now, err %v)", tag, sr.id, len(got), err)
							return
						}
					}
				}
			})
		}
		simrt.Block("join", func() bool { return remaining == 0 })
		if out.Violation != nil {
			return
		}
		// Re-storing identical content never makes a concurrent lookup miss: a lookup L of id
		// must succeed with content c if some Put(id,c) returned before L began and every Put
		// of other content to id either returned before that Put began or began after L ended
		// (so only Puts of c can overlap L). Stamps are scheduler decision numbers.
		for _, l := range looks {
			for _, pa := range puts {
				if pa.id != l.id || pa.end >= l.start {
					continue
				}
				stable := true
				for _, q := range puts {
					if q.id == l.id && q.content != pa.content && !(q.end < pa.start || q.start > l.end) {
						stable = false
						break
					}
				}
				if !stable {
					continue
				}
				restoring := false
				for _, q := range puts {
					if q != pa && q.id == l.id && q.content == pa.content && q.start <= l.end && q.end >= l.start {
						restoring = true
					}
				}
				if restoring {
					out.Count("probe_lookup_overlapping_identical_restore", 1)
				}
				if l.content != pa.content {
					if l.content < 0 {
						out.Violate("miss-while-restoring", "%s %s(id%d) [decisions %d-%d] failed (%s) although Put(id%d, content %d) had returned at decision %d and only Puts of that same content overlap the lookup", l.tag, l.kind, l.id, l.start, l.end, l.err, l.id, pa.content, pa.end)
					} else {
						out.Violate("foreign-data", "%s %s(id%d) returned content %d although the id stably holds content %d", l.tag, l.kind, l.id, l.content, pa.content)
					}
					return
				}
				break
			}
		}
		// quiescence: every id with a completed Put is readable and holds one of its contents
		c, _ := cache.Open(dir)
		for i := 0; i < nIDs; i++ {
			if len(completed[i]) == 0 {
				continue
			}
			data, e, err := c.GetBytes(cachekit.ActionID(i))
			if err != nil {
				out.Violate("unreadable-after-quiescence", "all writers finished, id%d had completed Puts, GetBytes fails: %v", i, err)
				return
			}
			if sha256.Sum256(data) != e.OutputID || which(data) < 0 || !completed[i][which(data)] && !invoked[i][which(data)] {
				out.Violate("corrupt-data", "after quiescence GetBytes(id%d) returns bytes no Put stored for it", i)
				return
			}
			file, fe, err := c.GetFile(cachekit.ActionID(i))
			if err != nil {
				out.Violate("unreadable-after-quiescence", "all writers finished, id%d had completed Puts, GetFile fails: %v", i, err)
				return
			}
			got, _ := os.ReadFile(file)
			if int64(len(got)) != fe.Size || sha256.Sum256(got) != fe.OutputID {
				out.Violate("corrupt-data", "after quiescence the file named by GetFile(id%d) does not match its entry", i)
				return
			}
		}
	})
	simos.OnOp(nil)
	out.TraceHash, out.Steps, out.SimTime, out.Trace = rep.TraceHash, rep.Steps, rep.SimTime, rep.Trace
	simcheck.Panics(out, rep.Panics)
	if rep.Deadlock {
		out.Violate("deadlock", "no task can run: %s", rep.DescribeBlocked())
	}
	if rep.StepCap {
		out.Inconclusive = "step cap: " + rep.DescribeBlocked()
	}
	out.Nontrivial = rep.Switches > len(p.Tasks)+1
	out.Count("shape_output_trimmed_away", int64(dropped))
	out.Count("concurrent_trims", int64(trims))
	out.Count("shape_prefix_entries_aged", int64(aged))
	out.Count("lookups", int64(lookups))
	out.Count("lookup_hits", int64(hits))
	out.Count("lookup_misses", int64(missesDuring))
	out.Count("context_switches", int64(rep.Switches))
	for k, v := range probes {
		out.Count("probe_"+k, v)
	}
	_, fired := simos.Counters()
	for k, v := range fired {
		out.Count("fired_"+k, v)
	}
	ops, _ := simos.Counters()
	out.Count("file_ops", ops["open"]+ops["read"]+ops["write"]+ops["close"]+ops["stat"]+ops["truncate"])
	out.Count("flock_acquired", ops["flock-acquired"])
	return out
}

var harness = &simcheck.Harness{
	Property: "C11",
	Level:    "exploration",
	Rule: "rapid draws 2-3 simulated processes x 1-2 goroutines x 1-4(5) operations (Put via PutBytes or a chunking reader, GetBytes, GetFile, now and then a Trim - which finds only fresh entries and must remove nothing) over 3 ids and up to 4 contents " +
		"(sizes 0..40000; per id either every writer stores the same content or contents differ; a quarter of the plans instantiate the statement's own scenario: an id holding other content is re-stored identically by two processes while a third looks it up), optionally an output file that went missing before the concurrent phase (the state a Trim leaves), torn page-granular transfers on/off, read and copy chunk sizes, and a schedule; " +
		"non-trivial = more context switches than task starts; distinct by decision-trace hash",
	Gen:     genPlan,
	NewPlan: func() any { return &Plan{} },
	Run:     run,
	Components: map[string]string{
		"cache, lockedfile, filelock": "real code from /repo's working tree, recompiled with substituted imports",
		"processes":                   "simulated: task groups with their own *Cache and descriptors inside one OS process",
		"file system":                 "real kernel file system; each system call is one scheduler decision; reads/writes larger than a page may be split at 4096-byte multiples",
		"goroutine scheduling":        "seeded scheduler",
	},
	Assumptions: []string{
		"a single read or write call of at most one page is atomic with respect to other processes; larger calls may be observed page by page",
		"no faults are injected in this check (C12 covers failing and interrupted Puts)",
	},
	RequiredCounters: []string{"lookups", "lookup_hits", "file_ops", "probe_reader_inside_a_write_of_one_data_file"},
}

func TestSim(t *testing.T) { simcheck.Main(t, harness) }
