// Package c01 decides the engine part of C01: a script passes iff every executed
// line meets its demand. Generated scripts over the engine's command subset
// (guards, !, exec foreground / background / named, wait, kill, stdout / stderr
// with -count, cmp stdout|stderr, stdin, exists, stop, skip, unknown and custom
// commands, with and without ContinueOnError) run against stub child processes
// under several process-latency assignments and schedules; verdict, first
// failing line and the set of lines that had effects must equal those of a
// small reference evaluator written from doc.go - for every timing.
package c01

import (
	"fmt"
	"os"
	"path/filepath"
	"regexp"
	"strings"
	"testing"
	"time"

	"github.com/rogpeppe/go-internal/testscript"
	"pgregory.net/rapid"

	"verif/harness/tskit"
	simcheck "verif/sim/check"
	simexec "verif/sim/exec"
	"verif/sim/gen"
	simos "verif/sim/os"
	simrt "verif/sim/rt"
	simtime "verif/sim/time"
)

type Guard struct {
	Cond string `json:"cond"` // ctrue cfalse linux windows
	Neg  bool   `json:"neg,omitempty"`
}

type Line struct {
	Guards []Guard `json:"guards,omitempty"`
	Neg    bool    `json:"neg,omitempty"`
	Cmd    string  `json:"cmd"`
	Out    int     `json:"out,omitempty"`  // index into outs (0 = none)
	Err    int     `json:"err,omitempty"`  // index into outs (0 = none)
	Code   int     `json:"code,omitempty"` // exit code
	Name   int     `json:"name,omitempty"` // background name index (0 = unnamed)
	Word   int     `json:"word,omitempty"` // pattern / file index
	Count  int     `json:"count,omitempty"`
	Base   int     `json:"base,omitempty"`  // base run time in ms
	Ever   bool    `json:"ever,omitempty"`  // background process runs until signalled
	Word2  int     `json:"word2,omitempty"` // second file of a two-argument exists
	Hold   int     `json:"hold,omitempty"`  // exec: index into holds - a descendant of the program keeps its output pipes open this long after it exited
}

var holds = []string{"", "1500ms", "40s"}

type Plan struct {
	Lines    []Line      `json:"lines"`
	Continue bool        `json:"continue,omitempty"` // Params.ContinueOnError
	Verbose  bool        `json:"verbose,omitempty"`
	Variants int         `json:"variants"` // how many latency assignments / schedules to run
	Sched    simrt.Sched `json:"sched"`
}

var outs = []string{"", "alpha", "beta", "alpha beta alpha", "gamma"}
var words = []string{"alpha", "beta", "gamma", "delta"}
var names = []string{"", "one", "two", "three"}

// a background-heavy command mix: several processes in flight, collected in different orders
var bgCmds = []string{"execbg", "execbg", "execbg", "execbg", "waitname", "waitname", "wait", "wait", "snap", "snap", "snap", "kill", "execfg", "stdout", "cmpout", "probe"}
var golden = map[string]string{"golden/alpha.txt": "alpha\n", "golden/beta.txt": "beta\n", "golden/aba.txt": "alpha beta alpha\n", "golden/empty.txt": "", "input.txt": "gamma\n"}
var goldenNames = []string{"golden/alpha.txt", "golden/beta.txt", "golden/aba.txt", "golden/empty.txt", "input.txt", "missing.txt", "input.txt/below"} // the last two do not exist (one because its parent is a file)

var cmds = []string{"execfg", "execfg", "execfg", "exececho", "execbg", "execbg", "wait", "wait", "waitname", "kill", "stdout", "stdout", "stderr", "cmpout", "cmperr", "stdin", "exists",
	"stop", "skip", "unknown", "probe", "probe", "probe", "failcmd", "phase", "snap", "snap", "exists2", "exists2", "execbad", "longprobe", "execbadbg", "say", "say"}

func genPlan(t *rapid.T, tier string) any {
	p := &Plan{}
	n := rapid.IntRange(1, 12).Draw(t, "nlines")
	mix := cmds
	bgHeavy := rapid.IntRange(0, 3).Draw(t, "bgheavy") == 0
	if bgHeavy {
		mix = bgCmds
	}
	if bgHeavy && rapid.Bool().Draw(t, "template") {
		// several background commands started, then collected in a drawn order, with the
		// script's view of stdout/stderr recorded after every collection step
		k := rapid.IntRange(2, 4).Draw(t, "nbg")
		for i := 0; i < k; i++ {
			// run times from under a millisecond to most of a second: what is collected when must not matter
			l := Line{Cmd: "execbg", Out: 1 + (i+rapid.IntRange(0, 3).Draw(t, "outrot"))%(len(outs)-1), Base: rapid.SampledFrom([]int{1, 2, 5, 9, 17, 30, 900, 2500, 6000}).Draw(t, "base")}
			l.Name = rapid.SampledFrom([]int{0, 1, 2, 3, i%3 + 1}).Draw(t, "bgname")
			l.Code = rapid.SampledFrom([]int{0, 0, 0, 1}).Draw(t, "bgcode")
			l.Neg = l.Code != 0 && rapid.IntRange(0, 3).Draw(t, "bgneg") != 0
			l.Err = rapid.SampledFrom([]int{0, 0, 2}).Draw(t, "bgerr")
			p.Lines = append(p.Lines, l)
		}
		for i, m := 0, rapid.IntRange(1, 4).Draw(t, "ncollect"); i < m; i++ {
			c := Line{Cmd: rapid.SampledFrom([]string{"waitname", "waitname", "wait"}).Draw(t, "collect"), Name: rapid.IntRange(0, 7).Draw(t, "target")}
			p.Lines = append(p.Lines, c, Line{Cmd: "snap"})
		}
		n = rapid.IntRange(0, 3).Draw(t, "tail")
	}
	for i := 0; i < n; i++ {
		if !bgHeavy && rapid.IntRange(0, 14).Draw(t, "stdinchain") == 0 {
			// who consumes the standard input set by 'stdin'? exactly the next exec, whatever becomes of it
			mid := Line{Cmd: rapid.SampledFrom([]string{"execbad", "execbad", "execbg", "execfg", "probe", "execbadbg"}).Draw(t, "consumer"), Neg: rapid.Bool().Draw(t, "consumerneg"),
				Code: rapid.SampledFrom([]int{0, 1}).Draw(t, "consumercode"), Base: 3}
			p.Lines = append(p.Lines, Line{Cmd: "stdin", Word: rapid.SampledFrom([]int{0, 1, 4}).Draw(t, "stdinfile")}, mid, Line{Cmd: "exececho", Base: 2}, Line{Cmd: "snap"})
			continue
		}
		if !bgHeavy && rapid.IntRange(0, 19).Draw(t, "lookupchain") == 0 {
			// a program is looked up on PATH before and after it is installed into a directory on PATH
			p.Lines = append(p.Lines, Line{Cmd: "pathwork"}, Line{Cmd: "exectool", Neg: rapid.IntRange(0, 3).Draw(t, "chainneg") != 0}, Line{Cmd: "mkbin"}, Line{Cmd: "cptool"},
				Line{Cmd: "exectool", Neg: rapid.IntRange(0, 3).Draw(t, "chainneg2") != 0}, Line{Cmd: "chmodtool"}, Line{Cmd: "exectool", Neg: rapid.IntRange(0, 3).Draw(t, "chainneg3") == 0}, Line{Cmd: "snap"})
			continue
		}
		l := Line{Cmd: rapid.SampledFrom(mix).Draw(t, "cmd")}
		for g, ng := 0, rapid.SampledFrom([]int{0, 0, 0, 1, 1, 2}).Draw(t, "nguards"); g < ng; g++ {
			l.Guards = append(l.Guards, Guard{Cond: rapid.SampledFrom([]string{"ctrue", "cfalse", "linux", "windows", "cflip", "cflip", "ctrue", "cfalse", "cbroken"}).Draw(t, "cond"), Neg: rapid.Bool().Draw(t, "gneg")})
		}
		l.Neg = rapid.IntRange(0, 3).Draw(t, "neg") == 0
		l.Out = rapid.IntRange(0, len(outs)-1).Draw(t, "out")
		l.Err = rapid.SampledFrom([]int{0, 0, 1, 2}).Draw(t, "err")
		l.Code = rapid.SampledFrom([]int{0, 0, 0, 1, 2}).Draw(t, "code")
		l.Name = rapid.IntRange(0, 7).Draw(t, "name") % len(names)
		l.Word = rapid.IntRange(0, 6).Draw(t, "word")
		l.Count = rapid.SampledFrom([]int{0, 0, 1, 2, 3}).Draw(t, "count")
		l.Base = rapid.IntRange(1, 30).Draw(t, "base")
		l.Ever = rapid.IntRange(0, 2).Draw(t, "ever") == 0
		if bgHeavy {
			l.Ever = rapid.IntRange(0, 5).Draw(t, "everbg") == 0
			l.Neg = rapid.IntRange(0, 7).Draw(t, "negbg") == 0
			l.Guards = nil
			if l.Cmd == "execbg" {
				l.Code = 0
				l.Out = rapid.IntRange(1, len(outs)-1).Draw(t, "outbg")
			}
		}
		l.Word2 = rapid.IntRange(0, 6).Draw(t, "word2")
		if l.Cmd == "say" && rapid.IntRange(0, 1).Draw(t, "silent") == 0 {
			l.Out, l.Err = 0, 0 // takes the writers and writes nothing
		}
		if rapid.IntRange(0, 7).Draw(t, "hold") == 0 {
			l.Hold = rapid.IntRange(1, len(holds)-1).Draw(t, "holdidx")
		}
		p.Lines = append(p.Lines, l)
	}
	p.Continue = rapid.IntRange(0, 2).Draw(t, "continue") == 0
	p.Verbose = rapid.IntRange(0, 5).Draw(t, "verbose") == 0
	p.Variants = 2
	if tier == "thorough" {
		p.Variants = 3
	}
	p.Sched = gen.Sched(t, 300)
	return p
}

// ---- the reference evaluator (written from doc.go, not from the implementation) ----

type bgProc struct {
	name   string
	neg    bool
	out    string
	err    string
	ok     bool // exit status is success
	ever   bool // runs until signalled
	killed bool
}

type verdict struct {
	result   string // pass | fail | skip
	failLine int    // first offending line (1-based), 0 if none
	probes   []string
}

type evaluator struct {
	flips                 int // evaluations of the stateful condition so far
	stdout, stderr, stdin string
	bgs                   []*bgProc
	files                 map[string]bool
	stopped, skipped      bool
	brokenGuard           bool // the last guardsHold met a condition whose evaluation failed
	binDir, toolCopied, toolExec bool // the look-up chain: $WORK/bin exists / holds the tool / the tool is executable
}

func withNL(s string) string {
	if s == "" {
		return ""
	}
	return s + "\n"
}

func countLit(text, pat string) int { return strings.Count(text, pat) }

// unsupported reports why a line cannot be given a timing-independent, documented
// meaning in the current state (such lines are dropped when the script is rendered).
func (e *evaluator) unsupported(l Line, cont, failedBefore bool) string {
	switch l.Cmd {
	case "wait":
		for _, b := range e.bgs {
			if b.ever && !b.killed {
				return "would wait for a process that never exits"
			}
			if cont && b.ok == b.neg {
				return "a failing wait under ContinueOnError leaves undocumented state"
			}
		}
	case "waitname":
		for _, b := range e.bgs {
			if b.name == names[l.Name] && l.Name != 0 {
				if b.ever && !b.killed {
					return "would wait for a process that never exits"
				}
				if cont && b.ok == b.neg {
					return "a failing wait under ContinueOnError leaves undocumented state"
				}
			}
		}
		if l.Name == 0 {
			return "wait needs a name here"
		}
	case "kill":
		// only processes that run until signalled can be signalled independently of timing
		any := false
		for _, b := range e.bgs {
			if l.Name != 0 && b.name != names[l.Name] {
				continue
			}
			any = true
			if !b.ever || b.killed {
				return "signalling a process that may already have exited depends on timing"
			}
		}
		if !any {
			return "nothing to signal"
		}
	case "skip":
		if len(e.bgs) > 0 {
			return "status of still-running background processes at skip is not documented"
		}
	case "stop":
		// documented: "stop: mark the script as passing and stop execution" - whatever is still running
		// in the background is stopped by the clean-up and its status is nobody's business
	case "execbg":
		if l.Name != 0 {
			for _, b := range e.bgs {
				if b.name == names[l.Name] {
					return "duplicate background name"
				}
			}
		}
	}
	return ""
}

// step evaluates one line; ok=false means the line does not meet its demand.
// guardsHold evaluates the guards left to right, stopping at the first that does not hold
// (a guard is judged when its line is reached: cflip is true on every other evaluation).
func (e *evaluator) guardsHold(l Line) bool {
	e.brokenGuard = false
	for _, g := range l.Guards {
		if g.Cond == "cbroken" {
			// the user's Condition callback reports an error: the guard can be judged neither way
			// and the line is the offending one, whatever its negation
			e.brokenGuard = true
			return false
		}
		truth := g.Cond == "ctrue" || g.Cond == "linux"
		if g.Cond == "cflip" {
			e.flips++
			truth = e.flips%2 == 1
		}
		if truth == g.Neg {
			return false
		}
	}
	return true
}

func (e *evaluator) step(l Line, probes *[]string) (ok bool) {
	neg := l.Neg
	switch l.Cmd {
	case "execfg", "exececho":
		if l.Cmd == "exececho" {
			e.stdout, e.stderr = e.stdin, ""
		} else {
			e.stdout, e.stderr = withNL(outs[l.Out]), withNL(outs[l.Err])
		}
		e.stdin = ""
		success := l.Code == 0
		return success != neg
	case "say":
		// a custom command that takes both writers: what it wrote (possibly nothing) is its output
		e.stdout, e.stderr = withNL(outs[l.Out]), withNL(outs[l.Err])
		return !neg
	case "pathwork":
		return !neg
	case "mkbin":
		e.binDir = true
		return !neg
	case "cptool":
		if !e.binDir {
			return neg
		}
		e.toolCopied = true
		return !neg
	case "chmodtool":
		if !e.toolCopied {
			return neg
		}
		e.toolExec = true
		return !neg
	case "exectool":
		// found and started only once an executable file of that name is in a PATH directory
		e.stdout, e.stderr, e.stdin = "", "", ""
		return e.toolExec != neg
	case "execbad", "execbadbg":
		// a file that exists but is not executable: the command cannot start (in the background
		// variant nothing is left to wait for)
		e.stdout, e.stderr, e.stdin = "", "", ""
		return neg
	case "longprobe":
		*probes = append(*probes, fmt.Sprintf("p%d", l.Word))
		return true
	case "execbg":
		b := &bgProc{name: names[l.Name], neg: neg, out: withNL(outs[l.Out]), err: withNL(outs[l.Err]), ok: l.Code == 0, ever: l.Ever}
		if b.ever {
			b.ok = false // it can only end by a signal
		}
		e.bgs = append(e.bgs, b)
		e.stdout, e.stderr, e.stdin = "", "", ""
		return true
	case "wait":
		if neg {
			return false // unsupported: ! wait
		}
		var so, se string
		for _, b := range e.bgs {
			so += b.out
			se += b.err
			if b.ok == b.neg {
				return false
			}
		}
		e.stdout, e.stderr, e.bgs = so, se, nil
		return true
	case "waitname":
		if neg {
			return false
		}
		for i, b := range e.bgs {
			if b.name == names[l.Name] {
				e.stdout, e.stderr = b.out, b.err
				if b.ok == b.neg {
					return false
				}
				e.bgs = append(e.bgs[:i:i], e.bgs[i+1:]...)
				return true
			}
		}
		return false // unknown background process
	case "kill":
		if neg {
			return false
		}
		for _, b := range e.bgs {
			if l.Name == 0 || b.name == names[l.Name] {
				b.killed = true
			}
		}
		return true
	case "stdout", "stderr":
		text := e.stdout
		if l.Cmd == "stderr" {
			text = e.stderr
		}
		pat := words[l.Word%len(words)]
		if l.Count > 0 {
			if neg {
				return false // -count with a negated match is an error
			}
			return countLit(text, pat) == l.Count
		}
		return strings.Contains(text, pat) != neg
	case "cmpout", "cmperr":
		text := e.stdout
		if l.Cmd == "cmperr" {
			text = e.stderr
		}
		want, exists := golden[goldenNames[l.Word%len(goldenNames)]]
		if !exists {
			return false // the file to compare with does not exist
		}
		return (text == want) != neg
	case "stdin":
		if neg {
			return false
		}
		c, exists := golden[goldenNames[l.Word%len(goldenNames)]]
		if !exists {
			return false
		}
		e.stdin = c
		return true
	case "exists":
		_, exists := golden[goldenNames[l.Word%len(goldenNames)]]
		return exists != neg
	case "exists2":
		// every named file must exist (or, negated, none of them may)
		_, e1 := golden[goldenNames[l.Word%len(goldenNames)]]
		_, e2 := golden[goldenNames[l.Word2%len(goldenNames)]]
		if neg {
			return !e1 && !e2
		}
		return e1 && e2
	case "snap":
		// records the exact stdout/stderr buffers as the script sees them
		*probes = append(*probes, fmt.Sprintf("snap out=%q err=%q", e.stdout, e.stderr))
		return true
	case "stop":
		if neg {
			return false
		}
		e.stopped = true
		return true
	case "skip":
		if neg {
			return false
		}
		e.skipped = true
		return true
	case "unknown":
		return false
	case "probe":
		*probes = append(*probes, fmt.Sprintf("p%d", l.Word))
		return true
	case "failcmd":
		return false
	case "phase":
		return true
	}
	return false
}

// render produces the script text (dropping unsupported lines) and the expected verdict.
func render(p *Plan, factor []int) (string, verdict, int) {
	e := &evaluator{files: map[string]bool{}}
	var b strings.Builder
	v := verdict{result: "pass"}
	lineNo := 0
	dropped := 0
	failed := false
	ended := false
	for li, l := range p.Lines {
		// a line is rendered even after the script has ended (it must then have no effect),
		// but the evaluator only advances while the script is alive
		alive := !ended
		l.Name %= len(names)
		guardsHold := true
		if alive {
			// peek: would the guards hold? (evaluated on a copy so that the count only advances once)
			peek := *e
			guardsHold = peek.guardsHold(l)
			if guardsHold && (l.Cmd == "waitname" || l.Cmd == "kill") {
				// aim at a background command that is actually outstanding, if there is a named one
				var named []int
				for _, b := range e.bgs {
					for ni, nm := range names {
						if ni != 0 && nm == b.name {
							named = append(named, ni)
						}
					}
				}
				if len(named) > 0 && (l.Cmd == "waitname" || l.Name != 0) {
					l.Name = named[p.Lines[li].Name%len(named)]
				}
			}
			if guardsHold {
				if why := e.unsupported(l, p.Continue, failed); why != "" {
					dropped++
					continue
				}
			}
		} else if l.Cmd != "probe" && l.Cmd != "execfg" && l.Cmd != "phase" && l.Cmd != "snap" {
			continue // after the end only harmless witnesses are rendered
		}
		lineNo++
		var text string
		for _, g := range l.Guards {
			n := ""
			if g.Neg {
				n = "!"
			}
			text += "[" + n + g.Cond + "] "
		}
		if l.Neg && l.Cmd != "phase" {
			text += "! "
		}
		run := fmt.Sprintf("run=%dus", (l.Base*factor[li%len(factor)])*100+(1<<uint(li%16)))
		switch l.Cmd {
		case "execfg":
			text += fmt.Sprintf("exec stub %s code=%d", run, l.Code)
			if l.Hold%len(holds) != 0 {
				text += " hold=" + holds[l.Hold%len(holds)]
			}
			if l.Out != 0 {
				text += fmt.Sprintf(" 'out=%s'", outs[l.Out])
			}
			if l.Err != 0 {
				text += fmt.Sprintf(" 'err=%s'", outs[l.Err])
			}
		case "exececho":
			text += fmt.Sprintf("exec stub %s code=%d stdin=echo", run, l.Code)
		case "pathwork":
			text += "env PATH=$WORK/bin${:}$PATH"
		case "mkbin":
			text += "mkdir bin"
		case "cptool":
			text += "cp input.txt bin/wtool"
		case "chmodtool":
			text += "chmod 755 bin/wtool"
		case "exectool":
			text += "exec wtool"
		case "execbad":
			text += "exec ./input.txt arg"
		case "execbadbg":
			text += "exec ./input.txt arg &"
		case "longprobe":
			text += fmt.Sprintf("probe p%d %s", l.Word, strings.Repeat("x", 70000))
		case "execbg":
			if l.Ever {
				run = "run=forever"
			}
			text += fmt.Sprintf("exec stub bg=true %s code=%d", run, l.Code)
			if l.Out != 0 {
				text += fmt.Sprintf(" 'out=%s'", outs[l.Out])
			}
			if l.Err != 0 {
				text += fmt.Sprintf(" 'err=%s'", outs[l.Err])
			}
			if l.Name != 0 {
				text += " &" + names[l.Name] + "&"
			} else {
				text += " &"
			}
		case "wait":
			text += "wait"
		case "waitname":
			text += "wait " + names[l.Name]
		case "kill":
			text += "kill -INT"
			if l.Name != 0 {
				text += " " + names[l.Name]
			}
		case "stdout", "stderr":
			text += l.Cmd
			if l.Count > 0 {
				text += fmt.Sprintf(" -count=%d", l.Count)
			}
			text += " " + words[l.Word%len(words)]
		case "cmpout":
			text += "cmp stdout " + goldenNames[l.Word%len(goldenNames)]
		case "cmperr":
			text += "cmp stderr " + goldenNames[l.Word%len(goldenNames)]
		case "stdin":
			text += "stdin " + goldenNames[l.Word%len(goldenNames)]
		case "exists":
			text += "exists " + goldenNames[l.Word%len(goldenNames)]
		case "exists2":
			text += "exists " + goldenNames[l.Word%len(goldenNames)] + " " + goldenNames[l.Word2%len(goldenNames)]
		case "snap":
			text += "snap"
		case "say":
			text += fmt.Sprintf("say '%s' '%s'", outs[l.Out], outs[l.Err])
		case "stop":
			text += "stop"
		case "skip":
			text += "skip"
		case "unknown":
			text += "frobnicate the widget"
		case "probe":
			text += fmt.Sprintf("probe p%d", l.Word)
		case "failcmd":
			text += "failcmd"
		case "phase":
			text = fmt.Sprintf("# phase %d", li)
		}
		b.WriteString(text + "\n")
		if !alive {
			continue
		}
		if l.Cmd == "phase" {
			continue
		}
		ok := true
		if e.guardsHold(l) {
			ok = e.step(l, &v.probes)
		} else if e.brokenGuard {
			ok = false
		}
		if !ok {
			if v.failLine == 0 {
				v.failLine = lineNo
			}
			failed = true
			if !p.Continue {
				ended = true
			}
		}
		if e.stopped || e.skipped {
			ended = true
		}
	}
	switch {
	case failed:
		v.result = "fail"
	case e.skipped:
		v.result = "skip"
	}
	for name, content := range golden {
		fmt.Fprintf(&b, "-- %s --\n%s", name, content)
	}
	return b.String(), v, dropped
}

var failLine = regexp.MustCompile(`FAIL: [^\n]*script\.txt:(\d+):`)

func run(t *testing.T, plan any, keep bool) *simcheck.Outcome {
	p := plan.(*Plan)
	out := &simcheck.Outcome{}
	base := os.Getenv("VERIF_WORKDIR")
	if base == "" {
		base = os.TempDir()
	}
	dir := filepath.Join(base, "c01")
	factors := [][]int{{1, 1, 1}, {7, 1, 3, 11, 2}, {1, 13, 5}}
	if p.Variants < 1 {
		p.Variants = 1
	}
	var first verdict
	expectedFails, expectedSkips := 0, 0
	for variant := 0; variant < p.Variants && variant < len(factors); variant++ {
		os.RemoveAll(dir)
		os.MkdirAll(filepath.Join(dir, "tmp"), 0o777)
		text, want, dropped := render(p, factors[variant])
		file := filepath.Join(dir, "script.txt")
		os.WriteFile(file, []byte(text), 0o666)
		if variant == 0 {
			first = want
		} else if want.result != first.result || want.failLine != first.failLine {
			out.Inconclusive = "reference evaluator is not timing independent"
			return out
		}
		simos.Reset()
		simtime.Reset()
		bin := tskit.BinDir("stub")
		simos.SetEnvTable(map[string]string{"PATH": bin, "GOTMPDIR": filepath.Join(dir, "tmp"), "TMPDIR": filepath.Join(dir, "tmp")})
		var probes []string
		flips := 0
		var subs []*tskit.Sub
		var fatal string
		sched := p.Sched
		sched.Seed += uint64(variant) * 7919
		rep := simrt.Run(t, simrt.Options{Sched: sched, MaxSteps: 100000, IdleCap: time.Hour, KeepTrace: keep && variant == 0}, func(s *simrt.Sim) {
			epoch := time.Now()
			simexec.Reset(epoch)
			root := tskit.NewRoot(s, epoch, p.Verbose)
			testscript.RunT(root, testscript.Params{
				Files:           []string{file},
				ContinueOnError: p.Continue,
				Condition: func(cond string) (bool, error) {
					switch cond {
					case "ctrue":
						return true, nil
					case "cfalse":
						return false, nil
					case "cflip":
						flips++
						return flips%2 == 1, nil
					case "cbroken":
						return false, fmt.Errorf("condition callback failed")
					}
					return false, fmt.Errorf("unknown condition %q", cond)
				},
				Cmds: map[string]func(ts *testscript.TestScript, neg bool, args []string){
					"probe": func(ts *testscript.TestScript, neg bool, args []string) {
						simrt.Yield("probe")
						probes = append(probes, args[0])
					},
					"snap": func(ts *testscript.TestScript, neg bool, args []string) {
						probes = append(probes, fmt.Sprintf("snap out=%q err=%q", ts.ReadFile("stdout"), ts.ReadFile("stderr")))
					},
					"say": func(ts *testscript.TestScript, neg bool, args []string) {
						o, e := ts.Stdout(), ts.Stderr()
						if args[0] != "" {
							fmt.Fprintln(o, args[0])
						}
						if args[1] != "" {
							fmt.Fprintln(e, args[1])
						}
						if neg {
							ts.Fatalf("say does not fail")
						}
					},
					"failcmd": func(ts *testscript.TestScript, neg bool, args []string) {
						ts.Fatalf("failcmd always fails")
					},
				},
			})
			root.Release()
			subs = root.Subs
			fatal = root.Fatal_
		})
		simos.SetEnvTable(nil)
		if variant == 0 {
			out.TraceHash, out.Steps, out.Trace = rep.TraceHash, rep.Steps, rep.Trace
		}
		simcheck.Panics(out, rep.Panics)
		if rep.StepCap {
			out.Inconclusive = "step cap: " + rep.DescribeBlocked()
			return out
		}
		tag := fmt.Sprintf("latency assignment %d", variant)
		if rep.Deadlock {
			out.Violate("hang", "%s: the script never ends: %s\n%s", tag, rep.DescribeBlocked(), text)
			return out
		}
		if fatal != "" || len(subs) != 1 {
			out.Inconclusive = "RunT did not run the script: " + fatal
			return out
		}
		sub := subs[0]
		got := "pass"
		switch {
		case sub.Failed:
			got = "fail"
		case sub.Skipped:
			got = "skip"
		}
		if got != want.result {
			class := "wrong-verdict"
			if want.result == "fail" && got == "pass" {
				class = "false-pass"
			}
			out.Violate(class, "%s: the run was reported as %s, the reference evaluation says %s (first offending line %d)\n--- script\n%s--- log\n%s", tag, got, want.result, want.failLine, numbered(text), sub.Log)
			return out
		}
		if want.result == "fail" {
			m := failLine.FindStringSubmatch(sub.Log)
			if m == nil {
				out.Violate("no-fail-line", "%s: the failed run's log does not name an offending line\n--- script\n%s--- log\n%s", tag, numbered(text), sub.Log)
				return out
			}
			if m[1] != fmt.Sprint(want.failLine) {
				out.Violate("wrong-line", "%s: the log names line %s as the first offending line, the reference evaluation says %d\n--- script\n%s--- log\n%s", tag, m[1], want.failLine, numbered(text), sub.Log)
				return out
			}
		}
		if strings.Join(probes, ",") != strings.Join(want.probes, ",") {
			out.Violate("wrong-effects", "%s: lines that had an effect (probe trace) %v, the reference evaluation says %v\n--- script\n%s--- log\n%s", tag, probes, want.probes, numbered(text), sub.Log)
			return out
		}
		for _, pr := range simexec.Procs() {
			if !pr.Exited || !pr.Reaped {
				out.Violate("child-left-behind", "%s: process %v exited=%v reaped=%v after the run", tag, pr.Args[1:], pr.Exited, pr.Reaped)
				return out
			}
		}
		out.Count("lines_dropped_as_timing_dependent_or_undocumented", int64(dropped))
		out.Count("runs", 1)
		if want.result == "fail" {
			expectedFails++
		}
		if want.result == "skip" {
			expectedSkips++
		}
	}
	out.Nontrivial = first.result != "pass" || len(first.probes) > 0
	out.Count("expected_fail", int64(expectedFails))
	out.Count("expected_skip", int64(expectedSkips))
	out.Count("expected_"+first.result+"_scripts", 1)
	out.Count("proc_starts", simexec.Starts)
	if p.Continue {
		out.Count("config_continue_on_error", 1)
	}
	// distinct scripts, not only distinct schedules
	out.TraceHash ^= simrt.HashStrings(fmt.Sprint(p.Lines), fmt.Sprint(p.Continue))
	return out
}

func numbered(text string) string {
	var b strings.Builder
	for i, l := range strings.Split(text, "\n") {
		if strings.HasPrefix(l, "-- ") {
			break
		}
		fmt.Fprintf(&b, "%3d  %s\n", i+1, l)
	}
	return b.String()
}

var harness = &simcheck.Harness{
	Property: "C01",
	Level:    "exploration",
	Rule: "rapid draws a script of up to 12 lines over the engine's command subset ([cond]/[!cond] guards with a custom Condition and OS conditions, !, a stateful custom condition, a custom condition whose evaluation reports an error (the line is then the offending one), exec foreground / background / named with seeded exit code, output and run time, foreground programs whose descendant keeps the output pipes open for 1.5 s or 40 s after they exit, exec (foreground and background) of a file that cannot be started, a chain that looks a program up on PATH before and after it is installed and made executable in $WORK/bin, a 70 KB line, " +
		"wait [name], kill -INT, stdout / stderr with literal patterns and -count, cmp stdout|stderr file, stdin, exists, one- and two-argument exists, stop, skip, an unknown command, probe / snap (exact stdout and stderr as the script sees them) / failing custom commands / a custom command that takes the script's stdout and stderr writers and writes something or nothing to them, phase comments) and ContinueOnError; " +
		"lines whose meaning would depend on timing or is undocumented in the current state are dropped at rendering; each script runs under 2 (quick) / 3 (thorough) latency assignments with different schedule seeds; " +
		"non-trivial = the expected verdict is not a plain pass or some probe ran; distinct by the hash of script and decision trace",
	Gen:     genPlan,
	NewPlan: func() any { return &Plan{} },
	Run:     run,
	Components: map[string]string{
		"testscript (script loop, runLine, conditions, !, command lookup, Fatalf/catchFailNow, stop, skip, ContinueOnError, exec/wait/kill, stdout/stderr/cmp/stdin/exists)": "real code from /repo's working tree, recompiled with substituted imports",
		"child processes": "stub (verif/sim/exec): seeded exit code, output, run time on the fake clock, signal reaction",
		"reference":       "a ~200-line evaluator of the same command subset written from doc.go",
		"testing.T":       "recording stub",
	},
	Assumptions: []string{
		"scope: the engine around commands. The file-manipulating built-ins (cd chmod cmpenv cp grep mkdir mv rm symlink unquote unix2dos, cmp on files), regular-expression semantics, RequireExplicitExec / Main registration, RequireUniqueNames and the standalone cmd/testscript binary's exit status are input->output semantics without schedule, clock or fault and are not decided here",
		"a guard whose Condition callback returns an error holds neither way: the line counts as the first offending one (the run must not be reported as passed on the strength of a guard nobody could evaluate)",
		"skip with background processes still running, kill of a process that may have exited, and a failing wait under ContinueOnError are not generated (timing dependent or undocumented)",
	},
	RequiredCounters: []string{"runs", "proc_starts", "expected_fail", "expected_skip"},
}

func TestSim(t *testing.T) { simcheck.Main(t, harness) }
