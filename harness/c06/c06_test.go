// Package c06 decides C06: a lockedfile write lock excludes every other holder,
// across goroutines and (simulated) processes; read locks exclude only
// writers; the lock is held from the moment the call returns until Close (or
// the unlock function) is called and is released by that call. The kernel's
// real flock is the arbiter (non-blocking mode; blocking is emulated by the
// scheduler), with EINTR / ENOLCK / truncate / close errors injected.
package c06

import (
	"errors"
	"fmt"
	"io"
	"os"
	"path/filepath"
	"strings"
	"syscall"
	"testing"
	"time"
	"testing/iotest"

	"github.com/rogpeppe/go-internal/lockedfile"
	"pgregory.net/rapid"

	simcheck "verif/sim/check"
	"verif/sim/gen"
	simos "verif/sim/os"
	simrt "verif/sim/rt"
	simsys "verif/sim/sys"
	simtime "verif/sim/time"
)

type Op struct {
	Kind        string   `json:"kind"` // openfile open create edit mutex read write transform
	Path        int      `json:"path"`
	Access      int      `json:"access,omitempty"` // openfile: 0 O_RDONLY, 1 O_WRONLY, 2 O_RDWR
	Create      bool     `json:"create,omitempty"`
	Trunc       bool     `json:"trunc,omitempty"`
	Append      bool     `json:"append,omitempty"`
	Hold        int      `json:"hold,omitempty"` // yields while the handle / mutex is held
	HoldSecs    int      `json:"hold_secs,omitempty"` // simulated seconds that pass at each of those yields (a lock held for a long time)
	IO          []string `json:"io,omitempty"`   // through the handle: r w t
	DoubleClose bool     `json:"double_close,omitempty"`
	Dup         bool     `json:"dup,omitempty"`        // another descriptor of the same open file (as a child that inherited it would hold) outlives Close
	ReaderErr   bool     `json:"reader_err,omitempty"` // write: the content reader fails after a few bytes
}

type TaskPlan struct {
	Proc int  `json:"proc"`
	Ops  []Op `json:"ops"`
}

type Plan struct {
	Exists []bool        `json:"exists"`         // per path: file exists at the start
	Fifo   []bool        `json:"fifo,omitempty"` // per path: the lock file is a FIFO (non-regular: truncation fails and is tolerated)
	NoDir  []bool        `json:"no_dir,omitempty"` // per path: the directory the lock file belongs in does not exist (every open must fail; nothing is locked)
	Link   []bool        `json:"link,omitempty"` // per path: the name every client uses is a symbolic link to the lock file
	Tasks  []TaskPlan    `json:"tasks"`
	Faults []simos.Fault `json:"faults,omitempty"`
	AgeSecs int          `json:"age_secs,omitempty"` // how old the lock files that exist at the start are
	Sched  simrt.Sched   `json:"sched"`
}

func genPlan(t *rapid.T, tier string) any {
	p := &Plan{}
	np := rapid.IntRange(1, 2).Draw(t, "paths")
	for i := 0; i < np; i++ {
		p.Exists = append(p.Exists, rapid.Bool().Draw(t, "exists"))
		p.Fifo = append(p.Fifo, rapid.IntRange(0, 4).Draw(t, "fifo") == 0)
	}
	procs := rapid.IntRange(1, 3).Draw(t, "procs")
	// in a sixth of the plans some other program renames new files over the lock files
	replacing := rapid.IntRange(0, 5).Draw(t, "replacing") == 0
	for i := 0; i < np; i++ {
		p.Link = append(p.Link, !replacing && !p.Fifo[i] && rapid.IntRange(0, 4).Draw(t, "link") == 0)
		p.NoDir = append(p.NoDir, !replacing && !p.Fifo[i] && !p.Link[i] && rapid.IntRange(0, 9).Draw(t, "nodir") == 0)
	}
	ntasks := 0
	for pr := 1; pr <= procs; pr++ {
		ng := rapid.IntRange(1, 3).Draw(t, "goroutines")
		for g := 0; g < ng && ntasks < 6; g++ {
			ntasks++
			tp := TaskPlan{Proc: pr}
			n := rapid.IntRange(1, 4).Draw(t, "nops")
			for k := 0; k < n; k++ {
				op := Op{Path: rapid.IntRange(0, np-1).Draw(t, "path")}
				op.Kind = rapid.SampledFrom([]string{"openfile", "openfile", "openfile", "open", "create", "edit", "mutex", "mutex", "read", "write", "transform"}).Draw(t, "kind")
				if replacing && rapid.IntRange(0, 3).Draw(t, "replace") == 0 {
					op.Kind = "replace"
				}
				if p.Fifo[op.Path] {
					// a FIFO can only be opened O_RDWR without blocking in the kernel, and must
					// not be read or written: handle-returning O_RDWR operations and Mutex only
					op.Kind = rapid.SampledFrom([]string{"openfile", "openfile", "create", "edit", "mutex"}).Draw(t, "fifokind")
				}
				if op.Kind == "openfile" {
					op.Access = rapid.IntRange(0, 2).Draw(t, "access")
					if p.Fifo[op.Path] {
						op.Access = 2
					}
					op.Create = rapid.Bool().Draw(t, "create")
					op.Trunc = rapid.IntRange(0, 3).Draw(t, "trunc") == 0
					op.Append = rapid.IntRange(0, 3).Draw(t, "append") == 0
				}
				op.Hold = rapid.IntRange(0, 3).Draw(t, "hold")
				if rapid.IntRange(0, 4).Draw(t, "longhold") == 0 {
					op.HoldSecs = rapid.SampledFrom([]int{1, 6, 60, 3600}).Draw(t, "holdsecs")
				}
				op.IO = rapid.SliceOfN(rapid.SampledFrom([]string{"r", "w", "t"}), 0, 2).Draw(t, "io")
				if p.Fifo[op.Path] {
					op.IO = nil
				}
				op.DoubleClose = rapid.IntRange(0, 5).Draw(t, "dbl") == 0
				op.Dup = rapid.IntRange(0, 5).Draw(t, "dup") == 0
				op.ReaderErr = rapid.IntRange(0, 3).Draw(t, "readererr") == 0
				tp.Ops = append(tp.Ops, op)
			}
			p.Tasks = append(p.Tasks, tp)
		}
	}
	nf := 0
	if rapid.IntRange(0, 2).Draw(t, "faulty") == 0 {
		nf = rapid.IntRange(1, 2).Draw(t, "nfaults")
	}
	for i := 0; i < nf; i++ {
		f := simos.Fault{Proc: -1, Nth: rapid.IntRange(0, 8).Draw(t, "nth"), Action: "error"}
		switch rapid.IntRange(0, 6).Draw(t, "fkind") {
		case 6:
			// one open is refused (a lock file the caller may not write, as a non-root user would meet)
			f.Op, f.Errno = "open", rapid.SampledFrom([]string{"EACCES", "EPERM"}).Draw(t, "openerr")
		case 5:
			// one flock call is refused as unsupported (as some network and FUSE mounts do, sometimes intermittently)
			f.Op, f.Errno = "flock", rapid.SampledFrom([]string{"ENOSYS", "ENOTSUP"}).Draw(t, "unsup")
		case 0, 1:
			f.Op, f.Errno, f.Repeat = "flock", "EINTR", rapid.IntRange(0, 2).Draw(t, "repeat")
		case 2:
			f.Op, f.Errno = "flock", "ENOLCK"
		case 3:
			f.Op, f.Errno = "truncate", "EIO"
		default:
			f.Op, f.Errno = "close", "EIO"
		}
		p.Faults = append(p.Faults, f)
	}
	p.AgeSecs = rapid.SampledFrom([]int{0, 0, 2, 10, 86400}).Draw(t, "agesecs")
	p.Sched = gen.Sched(t, 300)
	return p
}

type holder struct {
	task  int
	proc  int
	write bool
	what  string
}

func run(t *testing.T, plan any, keep bool) *simcheck.Outcome {
	p := plan.(*Plan)
	out := &simcheck.Outcome{}
	base := os.Getenv("VERIF_WORKDIR")
	if base == "" {
		base = os.TempDir()
	}
	dir := filepath.Join(base, "c06")
	os.RemoveAll(dir)
	os.MkdirAll(dir, 0o777)
	simos.Reset()
	simtime.Reset()
	simsys.Calls = 0
	simos.SetClassifier(func(path string) string {
		b := filepath.Base(path)
		if strings.HasPrefix(b, "lock") {
			return b
		}
		return "other"
	})
	paths := make([]string, len(p.Exists))
	for i := range paths {
		paths[i] = filepath.Join(dir, fmt.Sprintf("lock%c", 'A'+i))
		if i < len(p.NoDir) && p.NoDir[i] {
			paths[i] = filepath.Join(dir, fmt.Sprintf("gone%c", 'A'+i), fmt.Sprintf("lock%c", 'A'+i))
			out.Count("shape_lock_directory_missing", 1)
			continue
		}
		if i < len(p.Fifo) && p.Fifo[i] {
			if err := syscall.Mkfifo(paths[i], 0o666); err != nil {
				out.Inconclusive = "mkfifo: " + err.Error()
				return out
			}
			out.Count("shape_fifo_lock_file", 1)
		} else {
			target := paths[i]
			if i < len(p.Link) && p.Link[i] {
				// the name is a symbolic link (possibly dangling) to the real lock file
				target = filepath.Join(dir, fmt.Sprintf("target%c", 'A'+i))
				os.Symlink(target, paths[i])
				out.Count("shape_symlinked_lock_path", 1)
			}
			if p.Exists[i] {
				os.WriteFile(target, []byte("initial\n"), 0o666)
				simos.SetMtime(target, simtime.Now())
			}
		}
	}
	simtime.Advance(time.Duration(p.AgeSecs) * time.Second)
	hasReplace := false
	for _, tp := range p.Tasks {
		for _, op := range tp.Ops {
			if op.Kind == "replace" {
				hasReplace = true
			}
		}
	}
	holders := map[string][]holder{}
	overlapRW, sharedReaders, contended := 0, 0, 0
	acquire := func(path string, h holder) {
		for _, o := range holders[path] {
			if hasReplace {
				break // locks exclude per file, not per name: with the name re-pointed the table by name says nothing
			}
			if o.write || h.write {
				out.Violate("exclusion", "%s by task %d (proc %d) returned while %s by task %d (proc %d) still holds %s: a write lock must exclude every other holder",
					h.what, h.task, h.proc, o.what, o.task, o.proc, filepath.Base(path))
			} else {
				sharedReaders++
			}
		}
		holders[path] = append(holders[path], h)
	}
	release := func(path string, task int) {
		hs := holders[path]
		for i, o := range hs {
			if o.task == task {
				holders[path] = append(hs[:i:i], hs[i+1:]...)
				return
			}
		}
	}
	// ground truth: content operations only under the right lock
	simos.OnFileOp(func(f *simos.File, op string) {
		if !strings.HasPrefix(filepath.Base(f.Name()), "lock") {
			return
		}
		switch op {
		case "read":
			if f.LockMode() == 0 {
				out.Violate("unlocked-io", "read of %s through a descriptor that holds no lock", filepath.Base(f.Name()))
			}
		default:
			if f.Flag()&(os.O_WRONLY|os.O_RDWR) == 0 {
				return // read-only descriptor: the kernel refuses the mutation, nothing can change
			}
			if f.LockMode() != syscall.LOCK_EX {
				out.Violate("unlocked-io", "%s of %s through a descriptor that does not hold the exclusive lock (mode %d)", op, filepath.Base(f.Name()), f.LockMode())
			}
		}
	})
	simos.OnLock(func(ev simos.LockEvent) {
		if ev.Kind == "closed-with-lock" {
			// lockedfile promises unlock strictly before close; closing a locked descriptor
			// still releases it in the kernel, so this is recorded, not judged
			out.Count("closed_while_locked", 1)
		}
	})

	rep := simrt.Run(t, simrt.Options{Sched: p.Sched, Strict: true, MaxSteps: 100000, KeepTrace: keep}, func(s *simrt.Sim) {
		mutexes := map[string]*lockedfile.Mutex{} // one Mutex value per (process, path)
		remaining := len(p.Tasks)
		simos.Arm(p.Faults)
		for ti, tp := range p.Tasks {
			ti, tp := ti, tp
			s.Go(fmt.Sprintf("p%d.t%d", tp.Proc, ti), tp.Proc, func() {
				defer func() { remaining-- }()
				for oi, op := range tp.Ops {
					path := paths[op.Path]
					tag := fmt.Sprintf("task %d op %d", ti, oi)
					me := s.TaskOf().ID
					failedOpen := func(what string, err error) {
						out.Count("open_errors", 1)
						if n := simos.OpenCountTask(me); n != 0 {
							out.Violate("leak-after-failed-open", "%s %s failed (%v) but left %d descriptor(s) of this goroutine open", tag, what, err, n)
						}
					}
					switch op.Kind {
					case "openfile", "open", "create", "edit":
						var f *lockedfile.File
						var err error
						write := true
						what := op.Kind
						switch op.Kind {
						case "open":
							f, err = lockedfile.Open(path)
							write = false
						case "create":
							f, err = lockedfile.Create(path)
						case "edit":
							f, err = lockedfile.Edit(path)
						default:
							flag := []int{os.O_RDONLY, os.O_WRONLY, os.O_RDWR}[op.Access]
							write = op.Access != 0
							what = fmt.Sprintf("OpenFile(%s", []string{"O_RDONLY", "O_WRONLY", "O_RDWR"}[op.Access])
							if op.Create {
								flag |= os.O_CREATE
								what += "|O_CREATE"
							}
							if op.Trunc {
								flag |= os.O_TRUNC
								what += "|O_TRUNC"
							}
							if op.Append && op.Access != 0 {
								flag |= os.O_APPEND
								what += "|O_APPEND"
							}
							what += ")"
							f, err = lockedfile.OpenFile(path, flag, 0o666)
						}
						if err != nil {
							failedOpen(what, err)
							continue
						}
						// the moment the call returns: behavioural table and kernel-side truth
						acquire(path, holder{ti, tp.Proc, write, what})
						sf := simos.FileByFd(int(f.Fd()))
						want := syscall.LOCK_SH
						if write {
							want = syscall.LOCK_EX
						}
						if sf == nil {
							out.Inconclusive = "descriptor of a lockedfile.File is not a simulated file"
							return
						}
						if sf.LockMode() != want {
							out.Violate("wrong-lock-mode", "%s %s returned holding lock mode %d on its descriptor, the statement prescribes %d (1=shared, 2=exclusive)", tag, what, sf.LockMode(), want)
						}
						for k := 0; k < op.Hold; k++ {
							simrt.Yield("hold")
							simtime.Advance(time.Duration(op.HoldSecs) * time.Second)
							if k < len(op.IO) {
								switch op.IO[k] {
								case "r":
									if !(op.Kind == "openfile" && op.Access == 1) {
										io.ReadAll(io.LimitReader(f, 64))
									}
								case "w":
									if write {
										f.Write([]byte(fmt.Sprintf("%s\n", tag)))
									}
								case "t":
									if write {
										f.Truncate(3)
									}
								}
							}
						}
						if sf.LockMode() != want {
							out.Violate("lock-lost-before-close", "%s %s: the descriptor no longer holds its lock although Close has not been called", tag, what)
						}
						release(path, ti)
						dupFd := -1
						if op.Dup {
							dupFd, _ = syscall.Dup(int(f.Fd()))
						}
						cerr := f.Close()
						if dupFd >= 0 {
							// Close must have released the lock itself: another descriptor of the same
							// open file is still open, so the kernel does not do it on close. Ask the
							// kernel with a fresh descriptor (no yield since Close returned).
							if sh, ex := simos.Holders(path); sh == 0 && ex == 0 {
								if pf, err := os.OpenFile(path, os.O_RDWR, 0); err == nil {
									if err := syscall.Flock(int(pf.Fd()), syscall.LOCK_EX|syscall.LOCK_NB); err != nil {
										out.Violate("lock-kept-after-close", "%s %s: Close returned, nobody else holds %s, yet the kernel still refuses an exclusive lock (%v): the lock was left to the close of a descriptor that a child process also holds", tag, what, filepath.Base(path), err)
									}
									pf.Close()
								}
								out.Count("probe_close_with_inherited_descriptor", 1)
							}
							syscall.Close(dupFd)
						}
						if sf.LockMode() != 0 {
							out.Violate("lock-kept-after-close", "%s %s: Close returned (%v) but the descriptor still holds the lock", tag, what, cerr)
						}
						if op.DoubleClose {
							// other goroutines get to run (and to reuse the descriptor number) before
							// the redundant second Close, which must fail and change nothing
							for k := 0; k <= op.Hold; k++ {
								simrt.Yield("before-second-close")
							}
							if err2 := f.Close(); err2 == nil {
								out.Violate("double-close", "%s: second Close returned nil", tag)
							}
						}
					case "mutex":
						key := fmt.Sprintf("%d:%s", tp.Proc, path)
						mu := mutexes[key]
						if mu == nil {
							mu = lockedfile.MutexAt(path)
							mutexes[key] = mu
						}
						unlock, err := mu.Lock()
						if err != nil {
							failedOpen("Mutex.Lock", err)
							continue
						}
						acquire(path, holder{ti, tp.Proc, true, "Mutex.Lock"})
						if sh, ex := simos.Holders(path); !hasReplace && (ex != 1 || sh != 0) {
							out.Violate("wrong-lock-mode", "%s Mutex.Lock returned but the kernel-side table shows %d exclusive and %d shared locks on the file", tag, ex, sh)
						}
						for k := 0; k < op.Hold; k++ {
							simrt.Yield("hold")
							simtime.Advance(time.Duration(op.HoldSecs) * time.Second)
						}
						if sh, ex := simos.Holders(path); !hasReplace && (ex != 1 || sh != 0) {
							out.Violate("lock-lost-before-close", "%s Mutex held, but the kernel-side table shows %d exclusive and %d shared locks", tag, ex, sh)
						}
						release(path, ti)
						unlock()
					case "replace":
						// another program replaces the lock file by renaming a new file over its name
						if op.Path < len(p.Fifo) && !p.Fifo[op.Path] {
							simrt.Yield("replace")
							tmp := path + ".new"
							os.WriteFile(tmp, []byte("replacement\n"), 0o666)
							os.Rename(tmp, path)
							out.Count("probe_lock_file_replaced", 1)
						}
					case "read":
						lockedfile.Read(path)
					case "write":
						if op.ReaderErr {
							err := lockedfile.Write(path, io.MultiReader(strings.NewReader(tag), iotest.ErrReader(errors.New("content reader failed"))), 0o666)
							if n := simos.OpenCountTask(me); n != 0 {
								out.Violate("leak-after-failed-write", "%s Write returned (%v) but left %d descriptor(s) of this goroutine open (and locked)", tag, err, n)
							}
							out.Count("probe_write_with_failing_reader", 1)
						} else {
							lockedfile.Write(path, strings.NewReader(tag+"\n"), 0o666)
						}
					case "transform":
						lockedfile.Transform(path, func(b []byte) ([]byte, error) {
							simrt.Yield("transform.f")
							return append(b, 'x'), nil
						})
					}
					if out.Violation != nil {
						return
					}
				}
			})
		}
		simrt.Block("join", func() bool { return remaining == 0 })
		simos.Disarm()
	})
	simos.OnFileOp(nil)
	simos.OnLock(nil)
	simos.SetClassifier(simos.DefaultClass)
	out.TraceHash, out.Steps, out.SimTime, out.Trace = rep.TraceHash, rep.Steps, rep.SimTime, rep.Trace
	simcheck.Panics(out, rep.Panics)
	if rep.Deadlock {
		out.Violate("deadlock", "no task can run (a lock that is never released, or a lost wake-up): %s", rep.DescribeBlocked())
	}
	if rep.StepCap {
		out.Violate("no-progress", "tasks did not finish within %d decisions after faults stopped: %s", rep.Steps, rep.DescribeBlocked())
	}
	ops, fired := simos.Counters()
	out.Nontrivial = ops["flock-blocked"] > 0 || sharedReaders > 0
	out.SimSeconds = simtime.Offset().Seconds()
	out.Count("flock_calls", simsys.Calls)
	out.Count("flock_acquired", ops["flock-acquired"])
	out.Count("probe_lock_request_blocked", ops["flock-blocked"])
	out.Count("probe_readers_shared_a_lock", int64(sharedReaders))
	for k, v := range fired {
		out.Count("fired_"+k, v)
	}
	_ = overlapRW
	_ = contended
	return out
}

var harness = &simcheck.Harness{
	Property: "C06",
	Level:    "exploration",
	Rule: "rapid draws 1-3 simulated processes x 1-3 goroutines (at most 6 tasks) x 1-4 operations on 1-2 lock files: OpenFile with every access mode +-O_CREATE/O_TRUNC/O_APPEND, Open, Create, Edit " +
		"(held over 0-3 yields with reads/writes/truncates through the handle, sometimes closed twice); a fifth of the lock files are FIFOs (non-regular files, opened O_RDWR only), Mutex.Lock/unlock, Read, Write, Transform; a third of the plans inject 1-2 faults " +
		"(EINTR storms, ENOLCK or ENOSYS/ENOTSUP on flock, an open refused with EACCES/EPERM, failing truncate after the lock, failing close); now and then a lock file whose directory does not exist until a later actor creates it; lock files that are 0 s to a day old at the start and locks held for 1 s to an hour of simulated time; schedule policies random/sticky/pct/preempt; " +
		"non-trivial = some lock request had to wait or readers shared a lock; distinct by decision-trace hash",
	Gen:     genPlan,
	NewPlan: func() any { return &Plan{} },
	Run:     run,
	Components: map[string]string{
		"lockedfile, lockedfile/internal/filelock": "real code from /repo's working tree, recompiled with substituted imports",
		"flock":                "real kernel flock(2) on real descriptors, always called non-blocking; waiting is emulated by the scheduler",
		"processes":            "simulated: task groups with private descriptors and private Mutex values in one OS process (flock conflicts between open file descriptions, not processes)",
		"goroutine scheduling": "seeded scheduler",
	},
	Assumptions: []string{
		"flock conflicts are per open file description, so two descriptors of one OS process conflict exactly like two processes (measured)",
		"holders never nest lock acquisitions (the workload cannot deadlock by itself)",
	},
	RequiredCounters: []string{"flock_calls", "flock_acquired", "probe_lock_request_blocked"},
}

func TestSim(t *testing.T) { simcheck.Main(t, harness) }
