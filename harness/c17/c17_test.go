// Package c17 decides C17: testscript honours its deadline. Unmodified
// testscript code runs scripts inside a synctest bubble (fake clock); child
// processes are stubs whose exit instants and signal reactions are seeded and
// placed around the interrupt and kill instants; the oracle reads timing
// relations from the stub's signal log.
package c17

import (
	"fmt"
	"os"
	"path/filepath"
	"regexp"
	"strings"
	"testing"
	"time"

	"github.com/rogpeppe/go-internal/testscript"
	"pgregory.net/rapid"

	"verif/harness/tskit"
	simcheck "verif/sim/check"
	simexec "verif/sim/exec"
	"verif/sim/gen"
	simos "verif/sim/os"
	simrt "verif/sim/rt"
	simtime "verif/sim/time"
)

type Script struct {
	Quick   []int  `json:"quick"`              // run times (ms) of quick foreground commands before the main one
	Bg      bool   `json:"bg,omitempty"`       // a well-behaved background process (exits 10ms after an interrupt) is running meanwhile
	BgInt   string `json:"bg_int,omitempty"`   // the background process's reaction to SIGINT (what the end-of-script clean-up sends): "" = exits after 10ms | ignore | a delay; it always exits 10ms after a SIGQUIT
	BgDeaf  bool   `json:"bg_deaf,omitempty"`  // the background process ignores the deadline's SIGQUIT (it still exits 10ms after the clean-up's SIGINT)
	BgSlow  bool   `json:"bg_slow,omitempty"`  // the background process takes one and a half grace periods (as aimed) to exit after the SIGQUIT - still before the deadline
	Mode    string `json:"mode"`               // main command: early | around | forever
	RelNs   int64  `json:"rel_ns,omitempty"`   // around: natural exit instant relative to the interrupt instant (may be negative)
	EarlyMs int    `json:"early_ms,omitempty"` // early: run time
	Quit    string `json:"quit"`               // reaction to SIGQUIT: default | ignore | delay
	QuitNs  int64  `json:"quit_ns,omitempty"`  // delay: exits this long after the SIGQUIT
	HoldNs  int64  `json:"hold_ns,omitempty"`  // a descendant of the main command keeps its output pipes open this long after it exited (Wait returns only then)
	Chatty  bool   `json:"chatty,omitempty"`   // the main command writes a line to stderr every 20 ms for as long as it lives
	BigIn   bool   `json:"big_in,omitempty"`   // 200 KB of standard input are pending for the main command (which never reads them)
	Busy    bool   `json:"busy,omitempty"`     // the script first tries ("! exec") a program file that is still open for writing (ETXTBSY)
	BigOut  bool   `json:"big_out,omitempty"`  // the main command prints 1.1 MB before it blocks
	HoldG   bool   `json:"hold_g,omitempty"`   // early mode: the descendant holds the pipes for one and a half grace periods (as aimed; 150 ms without a deadline)
	Code    int    `json:"code,omitempty"`     // exit code of a natural exit
	Neg     bool   `json:"neg,omitempty"`      // the main command is written "! exec"
	After   int    `json:"after"`              // lines after the main command
}

type Plan struct {
	DeadlineMs int64       `json:"deadline_ms"` // 0: no deadline
	Scripts    []Script    `json:"scripts"`
	Verbose    bool        `json:"verbose,omitempty"`
	Twin       bool        `json:"twin,omitempty"`     // also run the unaffected scripts without a deadline and compare
	Parallel   int         `json:"parallel,omitempty"` // how many subtests the T lets run at once (go test -parallel); 0 = all
	Keep       string      `json:"keep,omitempty"`     // work directories are retained: testwork | workdirroot
	Beside     bool        `json:"beside,omitempty"`   // another RunT call (one 7 ms script) runs beside this one in the same process, with the same Deadline value
	PriorMs    int64       `json:"prior_ms,omitempty"` // an earlier RunT call in the same process (one short script) with this deadline distance; -1: without deadline; 0: none
	Sched      simrt.Sched `json:"sched"`
}

var relChoices = []int64{-int64(time.Millisecond), -int64(time.Microsecond), -1, 1, int64(time.Microsecond), int64(time.Millisecond), int64(30 * time.Millisecond)}

func genPlan(t *rapid.T, tier string) any {
	p := &Plan{}
	if rapid.IntRange(0, 7).Draw(t, "nodeadline") != 0 {
		// log-uniform between 300ms and 10min
		p.DeadlineMs = rapid.SampledFrom([]int64{300, 450, 700, 1000, 1999, 2000, 2001, 3000, 5000, 10000, 30000, 60000, 120000, 600000}).Draw(t, "deadline")
		p.DeadlineMs += rapid.Int64Range(0, 50).Draw(t, "dj")
	}
	n := rapid.IntRange(1, 3).Draw(t, "scripts")
	for i := 0; i < n; i++ {
		s := Script{}
		for k, nq := 0, rapid.IntRange(0, 2).Draw(t, "nquick"); k < nq; k++ {
			s.Quick = append(s.Quick, rapid.IntRange(1, 40).Draw(t, "quick"))
		}
		s.Bg = rapid.IntRange(0, 3).Draw(t, "bg") == 0
		if p.DeadlineMs == 0 {
			s.Mode = "early"
		} else {
			s.Mode = rapid.SampledFrom([]string{"early", "around", "around", "forever", "forever"}).Draw(t, "mode")
		}
		if s.Bg && s.Mode == "forever" {
			// only where the script is certainly still blocked when the deadline machinery fires: a script that
			// ends by itself would legitimately wait for such a process without limit
			s.BgInt = rapid.SampledFrom([]string{"", "", "ignore", "40s", "3s"}).Draw(t, "bgint")
			s.BgSlow = s.BgInt != "" && rapid.Bool().Draw(t, "bgslow")
			s.BgDeaf = s.BgInt == "" && rapid.IntRange(0, 2).Draw(t, "bgdeaf") == 0
		}
		s.EarlyMs = rapid.IntRange(1, 60).Draw(t, "early")
		s.RelNs = rapid.SampledFrom(relChoices).Draw(t, "rel")
		s.Quit = rapid.SampledFrom([]string{"default", "ignore", "delay", "delay"}).Draw(t, "quit")
		// delays below, around and above any plausible grace period
		s.QuitNs = rapid.SampledFrom([]int64{int64(time.Millisecond), int64(30 * time.Millisecond), int64(99 * time.Millisecond), int64(100*time.Millisecond) - 1,
			int64(100*time.Millisecond) + 1, int64(150 * time.Millisecond), int64(2 * time.Second), int64(40 * time.Second)}).Draw(t, "quitdelay")
		if s.Mode == "around" && rapid.IntRange(0, 3).Draw(t, "hold") == 0 {
			// the command exits around the interrupt instant while a descendant holds its output a little longer:
			// the interrupt can find the process already gone although Wait has not returned
			s.HoldNs = rapid.SampledFrom([]int64{int64(500 * time.Microsecond), int64(2 * time.Millisecond), int64(40 * time.Millisecond)}).Draw(t, "holdns") + 3
		}
		if s.Mode == "early" && rapid.IntRange(0, 3).Draw(t, "holdg") == 0 {
			s.HoldG = true
		}
		s.Busy = rapid.IntRange(0, 9).Draw(t, "busy") == 0
		s.Chatty = rapid.IntRange(0, 7).Draw(t, "chatty") == 0
		s.BigIn = rapid.IntRange(0, 11).Draw(t, "bigin") == 0
		s.BigOut = rapid.IntRange(0, 24).Draw(t, "bigout") == 0
		s.Code = rapid.SampledFrom([]int{0, 0, 0, 1}).Draw(t, "code")
		s.Neg = rapid.IntRange(0, 4).Draw(t, "neg") == 0
		s.After = rapid.IntRange(0, 2).Draw(t, "after")
		p.Scripts = append(p.Scripts, s)
	}
	p.Verbose = rapid.IntRange(0, 4).Draw(t, "verbose") == 0
	p.Twin = rapid.IntRange(0, 2).Draw(t, "twin") == 0
	if rapid.IntRange(0, 2).Draw(t, "limited") == 0 {
		p.Parallel = rapid.SampledFrom([]int{1, 2, -1}).Draw(t, "parallel") // -1: a T whose Run is synchronous and Parallel a no-op
	}
	if p.Parallel != 0 || (p.DeadlineMs != 0 && p.DeadlineMs < 1000) {
		// a descendant that holds the pipes cannot be interrupted by anybody: such a command is only generated
		// where it is certainly over well before the deadline machinery fires (all scripts start at once, and the
		// deadline is far enough away), which is also what the statement's "finish earlier" clause speaks about
		for i := range p.Scripts {
			p.Scripts[i].HoldG = false
		}
	}
	if rapid.IntRange(0, 4).Draw(t, "keepwork") == 0 {
		p.Keep = rapid.SampledFrom([]string{"testwork", "workdirroot"}).Draw(t, "keep")
	}
	p.Beside = rapid.IntRange(0, 5).Draw(t, "beside") == 0
	if rapid.IntRange(0, 2).Draw(t, "prior") == 0 {
		p.PriorMs = rapid.SampledFrom([]int64{-1, 300, 2000, 40000, 600000}).Draw(t, "priordeadline")
	}
	p.Sched = gen.Sched(t, 300)
	return p
}

type probeRec struct {
	script string
	label  string
	at     time.Duration
}

var tmpRootNo = regexp.MustCompile(`go-test-script\d+`)
var timing = regexp.MustCompile(`\(\d+\.\d+s\)`)

// scriptText renders script i. interruptAt is the fake instant (since the run's
// epoch) at which the harness expects the interrupt; it is used only to place
// exit instants, never by the oracle.
func scriptText(i int, s Script, interruptAt, grace time.Duration) string {
	var b strings.Builder
	fmt.Fprintf(&b, "# script %d\nprobe start\n", i)
	if s.Busy {
		b.WriteString("! exec ./busy-tool\n")
	}
	var elapsed time.Duration
	// every duration carries its own odd nanosecond offset, so that a script which the T lets
	// start late (after other scripts) cannot hit the interrupt or kill instant exactly: ties
	// between a process exit and a timer are decided by the runtime, not by the seed
	for k, q := range s.Quick {
		d := time.Duration(q)*time.Millisecond + time.Duration(13*(k+1)+i)*time.Nanosecond
		fmt.Fprintf(&b, "exec stub run=%dns out=quick\n", int64(d))
		elapsed += d
	}
	if s.Bg {
		bgInt := "10ms"
		if s.BgInt != "" {
			bgInt = s.BgInt
		}
		bgQuit := 10 * time.Millisecond
		if s.BgSlow {
			bgQuit = grace*3/2 + time.Duration(7+i)*time.Nanosecond
		}
		if s.BgDeaf {
			fmt.Fprintf(&b, "exec stub bg=true run=forever quit=ignore int=%s &\n", bgInt)
		} else {
			fmt.Fprintf(&b, "exec stub bg=true run=forever quit=%dns int=%s &\n", int64(bgQuit), bgInt)
		}
	}
	main := "exec stub fg=true"
	if s.Neg {
		main = "! " + main
	}
	switch s.Mode {
	case "early":
		main += fmt.Sprintf(" run=%dns", int64(time.Duration(s.EarlyMs)*time.Millisecond+time.Duration(101+17*i)*time.Nanosecond))
	case "around":
		run := interruptAt - elapsed + time.Duration(s.RelNs)
		if run < time.Nanosecond {
			run = time.Nanosecond
		}
		main += fmt.Sprintf(" run=%dns", int64(run))
	default:
		main += " run=forever"
	}
	switch s.Quit {
	case "ignore":
		main += " quit=ignore"
	case "delay":
		main += fmt.Sprintf(" quit=%dns:0", s.QuitNs)
	}
	if s.Code != 0 {
		main += fmt.Sprintf(" code=%d", s.Code)
	}
	if s.HoldNs > 0 {
		main += fmt.Sprintf(" hold=%dns", s.HoldNs+int64(i))
	}
	if s.HoldG {
		h := grace * 3 / 2
		if h == 0 {
			h = 150 * time.Millisecond
		}
		main += fmt.Sprintf(" hold=%dns", int64(h)+29+int64(i))
	}
	if s.BigOut {
		main += " bigout=1100000"
	}
	if s.Chatty {
		main += fmt.Sprintf(" errevery=%dns", 20000000+31+i)
	}
	if s.BigIn {
		b.WriteString("stdin big.txt\n")
	}
	b.WriteString(main + " out=main\n")
	for k := 0; k < s.After; k++ {
		fmt.Fprintf(&b, "probe after%d\nexec stub run=%dns\n", k, 3000000+211+19*k+i)
	}
	b.WriteString("probe end\n")
	if s.BigIn {
		b.WriteString("-- big.txt --\n")
		b.WriteString(strings.Repeat(strings.Repeat("i", 99)+"\n", 2000))
	}
	return b.String()
}

type runResult struct {
	subs   []*tskit.Sub
	procs  []*simexec.Proc
	probes []probeRec
	fatal  string
	besideFailed bool
	rep    *simrt.Report
	end    time.Duration
}

func execute(t *testing.T, p *Plan, files []string, deadline time.Duration, keep bool, gotmp string) *runResult {
	res := &runResult{}
	os.RemoveAll(gotmp)
	os.MkdirAll(gotmp, 0o777)
	simos.Reset()
	simtime.Reset()
	bin := tskit.BinDir("stub")
	simos.SetEnvTable(map[string]string{"PATH": bin, "GOTMPDIR": gotmp, "HOME": "/nonexistent", "TMPDIR": gotmp})
	defer simos.SetEnvTable(nil)
	res.rep = simrt.Run(t, simrt.Options{Sched: p.Sched, MaxSteps: 6000, IdleCap: 2 * time.Hour, KeepTrace: keep}, func(s *simrt.Sim) {
		epoch := time.Now()
		simexec.Reset(epoch)
		root := tskit.NewRoot(s, epoch, p.Verbose)
		root.Limit = p.Parallel
		root.Sequential = p.Parallel < 0
		params := testscript.Params{
			Files: files,
			Cmds: map[string]func(ts *testscript.TestScript, neg bool, args []string){
				"probe": func(ts *testscript.TestScript, neg bool, args []string) {
					simrt.Yield("probe")
					res.probes = append(res.probes, probeRec{ts.Name(), strings.Join(args, " "), time.Since(epoch)})
				},
			},
		}
		if deadline > 0 {
			params.Deadline = epoch.Add(deadline)
		}
		switch p.Keep {
		case "testwork":
			params.TestWork = true
		case "workdirroot":
			params.WorkdirRoot = filepath.Join(gotmp, "kept")
			os.MkdirAll(params.WorkdirRoot, 0o777)
		}
		besideDone := true
		if p.Beside && deadline > 0 && filepath.Base(gotmp) == "tmp" {
			// two test functions of one binary running in parallel get the same deadline from the testing package
			besideDone = false
			bf := filepath.Join(filepath.Dir(gotmp), "zbeside.txt")
			os.WriteFile(bf, []byte("exec stub run=7ms\n"), 0o666)
			s.Go("beside", 0, func() {
				defer func() { besideDone = true }()
				root2 := tskit.NewRoot(s, epoch, false)
				testscript.RunT(root2, testscript.Params{Files: []string{bf}, Deadline: params.Deadline})
				root2.Release()
				for _, sub := range root2.Subs {
					if sub.Failed {
						res.besideFailed = true
					}
				}
			})
		}
		func() {
			defer func() {
				// a Fatal on the root T ends RunT with Goexit in real life; here it returns
				// through the panic-free path because Root.Fatal records and Goexits the task
			}()
			testscript.RunT(root, params)
		}()
		simrt.Block("beside.join", func() bool { return besideDone })
		root.Release()
		res.subs = root.Subs
		res.fatal = root.Fatal_
		res.end = time.Since(epoch)
	})
	for _, pr := range simexec.Procs() {
		if scriptOf(pr) != "zbeside" {
			res.procs = append(res.procs, pr)
		}
	}
	return res
}

func scriptOf(p *simexec.Proc) string {
	// cmd.Dir is $WORK = <root>/script-<name>
	for _, el := range strings.Split(p.Dir, string(os.PathSeparator)) {
		if strings.HasPrefix(el, "script-") {
			return strings.TrimPrefix(el, "script-")
		}
	}
	return ""
}

func run(t *testing.T, plan any, keep bool) *simcheck.Outcome {
	p := plan.(*Plan)
	out := &simcheck.Outcome{}
	base := os.Getenv("VERIF_WORKDIR")
	if base == "" {
		base = os.TempDir()
	}
	dir := filepath.Join(base, "c17")
	os.RemoveAll(dir)
	os.MkdirAll(filepath.Join(dir, "scripts"), 0o777)
	D := time.Duration(p.DeadlineMs) * time.Millisecond
	// where the harness expects the interrupt (used only to aim exit instants)
	aim := D
	var aimGrace time.Duration
	if D > 0 {
		g := D / 20
		if g < 100*time.Millisecond {
			g = 100 * time.Millisecond
		}
		aim = D - 2*g
		aimGrace = g
	}
	var files []string
	for i, s := range p.Scripts {
		f := filepath.Join(dir, "scripts", fmt.Sprintf("s%d.txt", i))
		os.WriteFile(f, []byte(scriptText(i, s, aim, aimGrace)), 0o666)
		files = append(files, f)
	}
	if p.PriorMs != 0 {
		// RunT calls of one process are independent: whatever an earlier call computed must not leak into this one
		prior := filepath.Join(dir, "scripts", "prior.txt")
		os.WriteFile(prior, []byte("exec stub run=1000003ns out=prior\n"), 0o666)
		pd := time.Duration(0)
		if p.PriorMs > 0 {
			pd = time.Duration(p.PriorMs) * time.Millisecond
		}
		pr := execute(t, p, []string{prior}, pd, false, filepath.Join(dir, "tmp0"))
		if pr.rep.Deadlock || pr.rep.StepCap || len(pr.subs) != 1 || !pr.subs[0].Finished || pr.subs[0].Failed {
			out.Violate("prior-run", "the earlier RunT call (one 1ms script, deadline distance %dms) did not simply pass: %s", p.PriorMs, pr.rep.DescribeBlocked())
			return out
		}
		out.Count("prior_runt_calls", 1)
	}
	res := execute(t, p, files, D, keep, filepath.Join(dir, "tmp"))
	rep := res.rep
	out.TraceHash, out.Steps, out.SimTime, out.Trace = rep.TraceHash, rep.Steps, rep.SimTime, rep.Trace
	simcheck.Panics(out, rep.Panics)
	if rep.StepCap {
		// 6000 decisions is a hundred times what the longest plan needs. If the deadline has long passed
		// on the simulated clock by then, something is spinning instead of stopping: that is a hang.
		if D > 0 && rep.SimTime > D+time.Second {
			out.Violate("hang", "RunT is still busy %v after the run began (deadline %v) and has used up its decision budget: %s", rep.SimTime, D, rep.DescribeBlocked())
			return out
		}
		out.Inconclusive = "step cap: " + rep.DescribeBlocked()
		return out
	}
	if rep.Deadlock {
		out.Violate("hang", "nothing can run and no timer is pending for two simulated hours (a script never ends): %s", rep.DescribeBlocked())
		return out
	}
	if rep.BubbleErr != "" {
		out.Inconclusive = "bubble: " + rep.BubbleErr
		return out
	}
	if res.fatal != "" {
		out.Inconclusive = "RunT failed on the root T: " + res.fatal
		return out
	}
	if len(res.subs) != len(p.Scripts) {
		out.Inconclusive = fmt.Sprintf("%d subtests for %d scripts", len(res.subs), len(p.Scripts))
		return out
	}
	// the interrupt instant as observed: the first SIGQUIT delivered to a foreground
	// process that had been started before it
	tiObs := time.Duration(-1)
	for _, pr := range res.procs {
		for _, sg := range pr.Signals {
			if sg.Sig == "quit" && sg.Result == "delivered" && (tiObs < 0 || sg.At < tiObs) {
				tiObs = sg.At
			}
		}
	}
	// tiObs is the true interrupt instant if some process that was already running received
	// its interrupt then; if the first interrupt went to a process at its own start instant
	// (a script the T let run late) the true instant may be earlier and is not relied upon
	tiTrue := false
	gKnown := time.Duration(-1)
	for _, pr := range res.procs {
		for _, sg := range pr.Signals {
			if sg.Sig == "quit" && sg.Result == "delivered" && sg.At == tiObs && pr.Started < tiObs {
				tiTrue = true
			}
		}
	}
	if tiTrue && D > 0 {
		gKnown = (D - tiObs) / 2
	} else {
		for _, pr := range res.procs {
			var q, k time.Duration = -1, -1
			for _, sg := range pr.Signals {
				if sg.Result == "delivered" && sg.Sig == "quit" && q < 0 {
					q = sg.At
				}
				if sg.Result == "delivered" && sg.Sig == "kill" && k < 0 {
					k = sg.At
				}
			}
			if q >= 0 && k >= 0 && gKnown < 0 {
				gKnown = k - q
			}
		}
	}
	// the earliest instant at which the deadline machinery did anything at all: an interrupt that
	// found its process already gone (its Wait still draining output a descendant holds) counts too
	tiFire := tiObs
	for _, pr := range res.procs {
		for _, sg := range pr.Signals {
			if sg.Sig == "quit" && (tiFire < 0 || sg.At < tiFire) {
				tiFire = sg.At
			}
		}
	}
	interrupted, killed := 0, 0
	affected := map[string]bool{}
	firstInterrupt := map[string]time.Duration{}
	for _, pr := range res.procs {
		name := scriptOf(pr)
		what := fmt.Sprintf("script %s: process %v (started at %v)", name, pr.Args[1:], pr.Started)
		if !pr.Exited || pr.ExitAt > res.end {
			out.Violate("child-left-behind", "%s is still alive after RunT and all subtests ended (at %v)", what, res.end)
			continue
		}
		if !pr.Reaped {
			out.Violate("child-not-reaped", "%s exited but was never waited for", what)
		}
		if pr.Spec["bg"] == "true" || D == 0 {
			continue
		}
		var quitAt, killAt time.Duration = -1, -1
		for _, sg := range pr.Signals {
			if sg.Result != "delivered" {
				continue
			}
			if sg.Sig == "quit" && quitAt < 0 {
				quitAt = sg.At
			}
			if sg.Sig == "kill" && killAt < 0 {
				killAt = sg.At
			}
		}
		natural := time.Duration(-1) // natural exit instant, -1 = never
		if d, err := time.ParseDuration(pr.Spec["run"]); err == nil {
			natural = pr.Started + d
		}
		blockedPastDeadline := natural < 0 || natural > D
		if blockedPastDeadline && quitAt < 0 {
			out.Violate("not-interrupted", "%s would run past the deadline (%v) but was never sent an interrupt", what, D)
			continue
		}
		if tiObs >= 0 && pr.Started <= tiObs && (natural < 0 || natural > tiObs) && quitAt != tiObs {
			out.Violate("not-interrupted", "%s was running at the interrupt instant %v but its interrupt came at %v", what, tiObs, quitAt)
			continue
		}
		if quitAt < 0 {
			continue
		}
		if gKnown > 0 && quitAt < D-2*gKnown {
			out.Violate("early-interrupt", "%s was interrupted at %v, but one grace period is %v (seen between an interrupt and its kill) and the deadline is %v: no interrupt is due before %v", what, quitAt, gKnown, D, D-2*gKnown)
			continue
		}
		interrupted++
		affected[name] = true
		if at, ok := firstInterrupt[name]; !ok || quitAt < at {
			firstInterrupt[name] = quitAt
		}
		if quitAt >= D && !(tiObs >= 0 && pr.Started > tiObs) {
			out.Violate("late-interrupt", "%s: interrupt at %v is not before the deadline %v", what, quitAt, D)
		}
		// is it still alive one grace period after its interrupt? then it must be killed then
		if gKnown >= 0 {
			expectKill := quitAt + gKnown
			alive := natural < 0 || natural > expectKill
			switch spec := pr.Spec["quit"]; {
			case spec == "ignore":
			case spec == "":
				alive = false
			default:
				ds, _, _ := strings.Cut(spec, ":")
				if d, err := time.ParseDuration(ds); err != nil || quitAt+d <= expectKill {
					alive = false
				}
			}
			if alive && killAt < 0 {
				out.Violate("not-killed", "%s is still running one grace period (%v) after its interrupt at %v and was never force-killed", what, gKnown, quitAt)
				continue
			}
			if killAt >= 0 && killAt != expectKill {
				out.Violate("kill-timing", "%s: interrupt at %v, kill at %v: interrupt->kill is %v, one grace period is %v", what, quitAt, killAt, killAt-quitAt, gKnown)
				continue
			}
		}
		if killAt >= 0 {
			killed++
			if killAt <= quitAt {
				out.Violate("kill-timing", "%s: kill at %v does not come after the interrupt at %v", what, killAt, quitAt)
			}
			if tiTrue && pr.Started < tiObs {
				// in time: interrupted two grace periods before the deadline, killed one before it
				if g1, g2 := killAt-quitAt, D-killAt; g1 != g2 || killAt >= D {
					out.Violate("kill-timing", "%s: interrupt at %v, kill at %v, deadline %v: interrupt->kill is %v but kill->deadline is %v (one grace period each expected)", what, quitAt, killAt, D, g1, g2)
				}
			}
		}
	}
	for i, sub := range res.subs {
		name := fmt.Sprintf("s%d", i)
		if !sub.Finished {
			out.Violate("hang", "subtest %s never finished", name)
			continue
		}
		if D > 0 && sub.EndAt > D && (tiObs < 0 || sub.StartAt <= tiObs) {
			out.Violate("finished-after-deadline", "subtest %s ended at %v, after the deadline %v", name, sub.EndAt, D)
		}
		if !sub.Failed && !sub.Skipped {
			// a script reported as passed has run every one of its lines (these scripts contain no stop)
			ranEnd := false
			for _, pb := range res.probes {
				ranEnd = ranEnd || (pb.script == name && pb.label == "end")
			}
			if !ranEnd {
				out.Violate("passed-without-running", "script %s is reported as passed but its last line never ran (ended at %v, deadline %v); log:\n%s", name, sub.EndAt, D, sub.Log)
			}
		}
		if affected[name] {
			if !sub.Failed {
				out.Violate("timeout-not-reported", "script %s had its foreground command interrupted by the deadline but was not reported as failed (skipped=%v); log:\n%s", name, sub.Skipped, sub.Log)
			} else if !strings.Contains(sub.Log, "test timed out while running command") {
				out.Violate("timeout-not-reported", "script %s failed after the deadline interrupt but its log has no timed-out message:\n%s", name, sub.Log)
			}
			for _, pb := range res.probes {
				if pb.script == name && pb.at > firstInterrupt[name] {
					out.Violate("ran-after-timeout", "script %s: line 'probe %s' ran at %v although the script had timed out", name, pb.label, pb.at)
				}
			}
		}
	}
	// scripts that finish earlier are unaffected: compare with a run without deadline
	twins := 0
	if p.Twin && D > 0 && out.Violation == nil {
		var tfiles []string
		var idx []int
		for i := range p.Scripts {
			name := fmt.Sprintf("s%d", i)
			if affected[name] || (tiFire >= 0 && res.subs[i].EndAt >= tiFire) {
				continue // only scripts that were over before the deadline machinery did anything
			}
			finite := true
			for _, pr := range res.procs {
				if scriptOf(pr) == name && pr.Spec["bg"] != "true" && pr.Spec["run"] == "forever" {
					finite = false
				}
			}
			if !finite {
				continue
			}
			tfiles = append(tfiles, files[i])
			idx = append(idx, i)
		}
		if len(tfiles) > 0 {
			twin := execute(t, p, tfiles, 0, false, filepath.Join(dir, "tmp2"))
			if twin.rep.Deadlock || twin.rep.StepCap || len(twin.subs) != len(tfiles) {
				out.Inconclusive = "twin run did not complete: " + twin.rep.DescribeBlocked()
				return out
			}
			for k, i := range idx {
				a, b := res.subs[i], twin.subs[k]
				la, lb := timing.ReplaceAllString(a.Log, "(T)"), timing.ReplaceAllString(b.Log, "(T)")
				// with retained work directories the log names them, and the two runs use different temporary roots
				la = strings.ReplaceAll(la, filepath.Join(dir, "tmp")+string(os.PathSeparator), "<tmp>/")
				lb = strings.ReplaceAll(lb, filepath.Join(dir, "tmp2")+string(os.PathSeparator), "<tmp>/")
				// (another RunT call running beside this one takes a temporary-root number of its own)
				la, lb = tmpRootNo.ReplaceAllString(la, "go-test-scriptN"), tmpRootNo.ReplaceAllString(lb, "go-test-scriptN")
				if a.Failed != b.Failed || a.Skipped != b.Skipped || la != lb {
					out.Violate("affected-by-deadline", "script s%d finished before the deadline machinery fired, yet with a deadline: failed=%v skipped=%v, without: failed=%v skipped=%v; logs:\n--- with deadline\n%s\n--- without\n%s", i, a.Failed, a.Skipped, b.Failed, b.Skipped, la, lb)
				}
				twins++
			}
		}
	}
	out.Nontrivial = interrupted > 0 || len(p.Scripts) > 1
	out.SimSeconds = res.end.Seconds()
	out.SimTime = 0
	out.Count("processes_started", int64(len(res.procs)))
	out.Count("probe_foreground_interrupted", int64(interrupted))
	out.Count("probe_foreground_force_killed", int64(killed))
	out.Count("twin_comparisons", int64(twins))
	out.Count("proc_starts", simexec.Starts)
	for _, s := range p.Scripts {
		out.Count("mode_"+s.Mode+"_quit_"+s.Quit, 1)
	}
	if D == 0 {
		out.Count("runs_without_deadline", 1)
	}
	return out
}

var harness = &simcheck.Harness{
	Property: "C17",
	Level:    "exploration",
	Rule: "rapid draws a deadline distance (300 ms ... 10 min, or none), 1-3 scripts (quick commands, optional background process (exits on the deadline's interrupt; reacts to the clean-up's SIGINT promptly, after 3s / 40s, or never), one main foreground command that exits early, " +
		"exits at the interrupt instant +-{1ns,1us,1ms,30ms}, or never, optionally with a descendant that holds its output pipes 0.5-40 ms longer; optionally printing 1.1 MB first, writing to stderr every 20 ms, or with 200 KB of standard input pending; optionally a first line that tries a program file still open for writing; reaction to SIGQUIT: default, ignore, exit after a delay below / around / above the grace period; optional '!' prefix; lines after it), " +
		"verbosity, work-directory retention (none / TestWork / WorkdirRoot), the number of subtests the T lets run at once (all, 1 or 2), whether a no-deadline twin run is compared, optionally another RunT call with the same Deadline value running beside this one, optionally an earlier RunT call in the same process with another deadline distance, and a schedule; non-trivial = a foreground command was interrupted or several scripts ran; distinct by decision-trace hash",
	Gen:     genPlan,
	NewPlan: func() any { return &Plan{} },
	Run:     run,
	Components: map[string]string{
		"testscript (RunT, script loop, exec, waitOrStop, context/grace computation, messages), par, txtar, execpath": "real code from /repo's working tree, recompiled with substituted imports",
		"clock, timers, contexts":  "synctest fake clock",
		"child processes, signals": "stub (verif/sim/exec): behaviour decoded from arguments, exit instants on the fake clock, signal log",
		"testing.T":                "recording stub whose subtests are simulator tasks (Parallel parks until RunT returned)",
		"file system":              "real, through verif/sim/os",
	},
	Assumptions: []string{
		"the grace period is not hard-coded in the oracle: only 'interrupt->kill equals kill->deadline, both positive' and 'everything ends by the deadline' are required",
		"exact ties between a process exit and the interrupt/kill instant are not generated (all instants differ by at least 1 ns)",
		"a background process reacts promptly to at least one of the two signals it is sent (the deadline's SIGQUIT, the clean-up's SIGINT); ones deaf or slow to one of them are generated only next to a foreground command that blocks forever (elsewhere the script would legitimately wait for them without limit); one deaf to both hangs the unchanged code too and is outside the statement",
	},
	RequiredCounters: []string{"proc_starts", "probe_foreground_interrupted", "probe_foreground_force_killed"},
}

func TestSim(t *testing.T) { simcheck.Main(t, harness) }
