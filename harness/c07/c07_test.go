// Package c07 decides C07: lockedfile.Read / Write / Transform linearize.
// Several goroutines in several simulated processes operate on one file; every
// open / flock / read / write / truncate / close is a scheduler decision, large
// transfers are torn at page boundaries; the recorded invoke/return history is
// checked against a register model with porcupine. A fault scenario makes one
// file operation inside one Transform fail (or its function fail) for all
// old/new length relations and requires the previous contents to remain.
package c07

import (
	"bytes"
	"errors"
	"fmt"
	"io"
	"os"
	"path/filepath"
	"strconv"
	"testing"
	"time"

	"github.com/anishathalye/porcupine"
	"github.com/rogpeppe/go-internal/lockedfile"
	"pgregory.net/rapid"

	simcheck "verif/sim/check"
	"verif/sim/gen"
	simos "verif/sim/os"
	simrt "verif/sim/rt"
	simsys "verif/sim/sys"
	simtime "verif/sim/time"
)

type Op struct {
	Kind    string `json:"kind"`            // read write transform
	Len     int    `json:"len,omitempty"`   // write: length class index
	TKind   string `json:"tkind,omitempty"` // transform: longer shorter same error unchanged aliasprefix aliasappend tonil (the function returns a nil slice: empty contents)
	Delta   int    `json:"delta,omitempty"`
	Yield   int    `json:"yield,omitempty"`    // yields inside the transform function
	EOFData bool   `json:"eof_data,omitempty"` // write: the content reader returns its last chunk together with io.EOF
	File    int    `json:"file,omitempty"`     // which of the plan's files the operation addresses
}

type TaskPlan struct {
	Proc int  `json:"proc"`
	Ops  []Op `json:"ops"`
}

type FaultPlan struct {
	Op     Op     `json:"op"`     // the Transform that is made to fail (runs in its own process)
	K      int    `json:"k"`      // its k-th file operation fails
	Action string `json:"action"` // error | short
	Frac   int    `json:"frac,omitempty"`
	Errno  string `json:"errno,omitempty"` // EIO (default) ENOSPC ENOSYS (a flock that fails this way means "locking not supported")
	Double bool   `json:"double,omitempty"` // the following operation fails too (rollback failing): only "no panic, no deadlock" is asserted
}

type Plan struct {
	Fresh   bool        `json:"fresh,omitempty"` // the file does not exist at the start
	Link    int         `json:"link,omitempty"`  // 1: every client names the file through a symbolic link; 2: every other client does
	Files   int         `json:"files,omitempty"` // 2: the operations are spread over two files (two independent registers in one process)
	InitLen int         `json:"init_len"`
	Tasks   []TaskPlan  `json:"tasks"`
	Fault   *FaultPlan  `json:"fault,omitempty"`
	Torn    bool        `json:"torn"`
	Chunk   int         `json:"chunk"`
	Sched   simrt.Sched `json:"sched"`
}

var lengths = []int{0, 12, 40, 64, 600, 5000, 9000, 70000}

func genOp(t *rapid.T) Op {
	op := Op{}
	switch k := rapid.IntRange(0, 9).Draw(t, "kind"); {
	case k <= 3:
		op.Kind = "read"
	case k <= 6:
		op.Kind = "write"
		op.Len = rapid.IntRange(0, len(lengths)-1).Draw(t, "len")
		op.EOFData = rapid.IntRange(0, 3).Draw(t, "eofdata") == 0
	default:
		op.Kind = "transform"
		op.TKind = rapid.SampledFrom([]string{"longer", "shorter", "same", "error", "unchanged", "longer", "shorter", "aliasprefix", "aliasprefix", "aliasappend", "tonil"}).Draw(t, "tkind")
		op.Delta = rapid.SampledFrom([]int{1, 7, 300, 5000, 40000}).Draw(t, "delta")
		op.Yield = rapid.IntRange(0, 2).Draw(t, "yield")
	}
	return op
}

func genPlan(t *rapid.T, tier string) any {
	p := &Plan{}
	p.Fresh = rapid.IntRange(0, 5).Draw(t, "fresh") == 0
	p.InitLen = rapid.IntRange(0, len(lengths)-1).Draw(t, "initlen")
	p.Link = rapid.SampledFrom([]int{0, 0, 0, 1, 2}).Draw(t, "link")
	procs := rapid.IntRange(1, 3).Draw(t, "procs")
	total := 0
	for pr := 1; pr <= procs; pr++ {
		ng := rapid.IntRange(1, 2).Draw(t, "goroutines")
		for g := 0; g < ng; g++ {
			tp := TaskPlan{Proc: pr}
			n := rapid.IntRange(1, 4).Draw(t, "nops")
			for k := 0; k < n && total < 22; k++ {
				tp.Ops = append(tp.Ops, genOp(t))
				total++
			}
			p.Tasks = append(p.Tasks, tp)
		}
	}
	if rapid.IntRange(0, 3).Draw(t, "twofiles") == 0 {
		p.Files = 2
		for ti := range p.Tasks {
			for oi := range p.Tasks[ti].Ops {
				p.Tasks[ti].Ops[oi].File = rapid.IntRange(0, 1).Draw(t, "file")
			}
		}
	}
	if rapid.IntRange(0, 2).Draw(t, "faulty") == 0 {
		f := &FaultPlan{K: rapid.IntRange(0, 12).Draw(t, "k"), Action: rapid.SampledFrom([]string{"error", "short"}).Draw(t, "action")}
		f.Frac = rapid.SampledFrom([]int{1, 500, 999}).Draw(t, "frac")
		f.Errno = rapid.SampledFrom([]string{"", "", "ENOSPC", "ENOSYS", "ENOSYS"}).Draw(t, "errno")
		f.Op = Op{Kind: "transform", TKind: rapid.SampledFrom([]string{"longer", "shorter", "same", "error"}).Draw(t, "ftkind"),
			Delta: rapid.SampledFrom([]int{1, 7, 300, 5000, 40000}).Draw(t, "fdelta")}
		if tier == "thorough" && rapid.IntRange(0, 5).Draw(t, "double") == 0 {
			f.Double = true
		}
		p.Fault = f
	}
	p.Torn = rapid.IntRange(0, 3).Draw(t, "torn") != 0
	p.Chunk = rapid.SampledFrom([]int{7, 100, 4096, 1 << 20}).Draw(t, "chunk")
	p.Sched = gen.Sched(t, 400)
	return p
}

// value renders the self-checking contents number id of (about) the given length.
func value(id, l int) []byte {
	h := fmt.Sprintf("<%d:", id)
	// total length appears in the header; solve for a consistent length
	n := l
	for {
		hdr := h + strconv.Itoa(n) + ">"
		if n >= len(hdr) {
			b := make([]byte, n)
			copy(b, hdr)
			for i := len(hdr); i < n; i++ {
				b[i] = byte('a' + (id*7+i)%26)
			}
			return b
		}
		n = len(hdr)
	}
}

// parse returns the identity of a value, or ok=false if b is not a value. A value is
// value(id, n) or a prefix of it that still contains the whole header (Transform functions
// may return a prefix of what they were given); its identity is (id, length), so a read that
// was cut short is a value nobody ever wrote.
func parse(b []byte) (ident int, ok bool) {
	if len(b) < 5 || b[0] != '<' {
		return 0, false
	}
	i := bytes.IndexByte(b, '>')
	if i < 0 || i > 30 {
		return 0, false
	}
	parts := bytes.Split(b[1:i], []byte(":"))
	if len(parts) != 2 {
		return 0, false
	}
	id, err1 := strconv.Atoi(string(parts[0]))
	n, err2 := strconv.Atoi(string(parts[1]))
	if err1 != nil || err2 != nil || n < len(b) {
		return 0, false
	}
	if !bytes.Equal(value(id, n)[:len(b)], b) {
		return 0, false
	}
	return id*1000000 + len(b), true
}

// identOf returns the identity of a value the harness itself produced.
func identOf(v []byte) int {
	id, ok := parse(v)
	if !ok {
		panic("harness produced an unparsable value")
	}
	return id
}

const (
	absent = -1
	empty  = -3 // the file exists with no contents (the fresh-file scenario, or a Transform whose function returned no bytes)
)

type input struct {
	kind string
	id   int // write/transform: new value id
}
type output struct {
	id      int  // read: value read; transform: old value seen by the function
	err     bool // the call returned an error
	called  bool // transform: the function was called
	noexist bool
}

var model = porcupine.Model{
	Init: func() interface{} { return 0 },
	Step: func(state, in, outp interface{}) (bool, interface{}) {
		st := state.(int)
		i := in.(input)
		o := outp.(output)
		switch i.kind {
		case "init":
			return true, i.id
		case "read":
			if o.err {
				return o.noexist && st == absent, st
			}
			return st == o.id, st
		case "write":
			return !o.err, i.id
		case "transform":
			if o.err {
				if o.called {
					return st == o.id || (st == absent && o.id == empty), st
				}
				return true, st
			}
			if !(st == o.id || (st == absent && o.id == empty)) {
				return false, st
			}
			return true, i.id
		}
		return false, st
	},
	DescribeOperation: func(in, outp interface{}) string {
		return fmt.Sprintf("%+v -> %+v", in, outp)
	},
}

type chunkReader struct {
	data    []byte
	chunk   int
	eofData bool // return (n>0, io.EOF) with the last chunk, as io.Reader allows
}

func (r *chunkReader) Read(p []byte) (int, error) {
	if len(r.data) == 0 {
		return 0, io.EOF
	}
	n := min(len(p), r.chunk, len(r.data))
	copy(p, r.data[:n])
	r.data = r.data[n:]
	if r.eofData && len(r.data) == 0 {
		return n, io.EOF
	}
	return n, nil
}

func run(t *testing.T, plan any, keep bool) *simcheck.Outcome {
	p := plan.(*Plan)
	out := &simcheck.Outcome{}
	base := os.Getenv("VERIF_WORKDIR")
	if base == "" {
		base = os.TempDir()
	}
	dir := filepath.Join(base, "c07")
	os.RemoveAll(dir)
	os.MkdirAll(dir, 0o777)
	type reg struct {
		path, link string
		events     []porcupine.Event
		published  bool // some Write or successful Transform has returned
		f2Hits     int
	}
	nfiles := 1
	if p.Files == 2 {
		nfiles = 2
	}
	var regs []*reg
	for i := 0; i < nfiles; i++ {
		r := &reg{path: filepath.Join(dir, fmt.Sprintf("register%d", i)), link: filepath.Join(dir, fmt.Sprintf("register%d-link", i))}
		if p.Link != 0 {
			os.Symlink(r.path, r.link)
		}
		regs = append(regs, r)
	}
	pathOf := func(r *reg, client int) string {
		if p.Link == 1 || p.Link == 2 && client%2 == 1 {
			return r.link
		}
		return r.path
	}
	simos.Reset()
	simtime.Reset()
	simsys.Calls = 0
	simos.SetTorn(p.Torn)
	simos.SetClassifier(func(string) string { return "reg" })
	defer simos.SetClassifier(simos.DefaultClass)

	evID := 0
	invoke := func(r *reg, client int, in input) int {
		evID++
		r.events = append(r.events, porcupine.Event{ClientId: client, Kind: porcupine.CallEvent, Value: in, Id: evID})
		return evID
	}
	ret := func(r *reg, client, id int, o output) {
		r.events = append(r.events, porcupine.Event{ClientId: client, Kind: porcupine.ReturnEvent, Value: o, Id: id})
	}
	dropCall := func(r *reg, id int) {
		for i := range r.events {
			if r.events[i].Id == id && r.events[i].Kind == porcupine.CallEvent {
				r.events = append(r.events[:i:i], r.events[i+1:]...)
				return
			}
		}
	}
	for i, r := range regs {
		initState := absent
		if !p.Fresh {
			// each file starts with its own value
			initState = identOf(value(1+i, lengths[p.InitLen]))
			os.WriteFile(r.path, value(1+i, lengths[p.InitLen]), 0o666)
		}
		id0 := invoke(r, 0, input{"init", initState})
		ret(r, 0, id0, output{})
	}

	concurrentOps := 0
	emptyReads := 0
	canEmpty := false
	for _, tp := range p.Tasks {
		for _, op := range tp.Ops {
			if op.Kind == "transform" && op.TKind == "tonil" {
				canEmpty = true
			}
		}
	}
	inflight := 0
	faultFired := false
	doubleFault := p.Fault != nil && p.Fault.Double
	notExist := func(err error) bool { return errors.Is(err, os.ErrNotExist) }

	doOp := func(s *simrt.Sim, client int, opid int, op Op) {
		inflight++
		if inflight > 1 {
			concurrentOps++
		}
		defer func() { inflight-- }()
		r := regs[op.File%len(regs)]
		path := pathOf(r, client)
		switch op.Kind {
		case "read":
			eid := invoke(r, client, input{kind: "read"})
			publishedAtInvoke := r.published
			data, err := lockedfile.Read(path)
			if err != nil {
				ret(r, client, eid, output{err: true, noexist: notExist(err)})
				if !notExist(err) {
					out.Violate("read-error", "Read failed without an injected fault: %v", err)
				}
				return
			}
			if len(data) == 0 && p.Fresh && !publishedAtInvoke {
				// candidate for the known finding F2 (the file was created by a Write / Transform /
				// Edit that has not published contents): dropped from the history, reported at the end
				r.f2Hits++
				dropCall(r, eid)
				return
			}
			id, ok := parse(data)
			if !ok {
				head := data
				if len(head) > 40 {
					head = head[:40]
				}
				if len(data) == 0 && !p.Fresh && canEmpty {
					// some Transform of this plan empties the file: whether this Read may see that is the model's business
					emptyReads++
					ret(r, client, eid, output{id: empty})
					return
				}
				if len(data) == 0 {
					out.Violate("empty-read", "Read returned empty contents although the file always held a complete value")
				} else {
					out.Violate("torn-read", "Read returned %d bytes that are not exactly one written value (starts %q)", len(data), head)
				}
				ret(r, client, eid, output{id: -2})
				return
			}
			ret(r, client, eid, output{id: id})
		case "write":
			v := value(opid, lengths[op.Len])
			eid := invoke(r, client, input{kind: "write", id: identOf(v)})
			err := lockedfile.Write(path, &chunkReader{v, max(p.Chunk, len(v)/12), op.EOFData}, 0o666)
			ret(r, client, eid, output{err: err != nil})
			if err != nil {
				out.Violate("write-error", "Write failed without an injected fault: %v", err)
			} else {
				r.published = true
			}
		case "transform":
			eid := invoke(r, client, input{kind: "transform", id: opid})
			o := output{}
			newID := opid
			err := lockedfile.Transform(path, func(old []byte) ([]byte, error) {
				o.called = true
				if len(old) == 0 {
					o.id = empty
				} else if id, ok := parse(old); ok {
					o.id = id
				} else {
					o.id = -2
					head := old
					if len(head) > 40 {
						head = head[:40]
					}
					out.Violate("torn-read", "Transform's function was given %d bytes that are not exactly one written value (starts %q)", len(old), head)
				}
				for i := 0; i < op.Yield; i++ {
					simrt.Yield("transform.f")
				}
				switch op.TKind {
				case "error":
					return nil, errors.New("function failed")
				case "unchanged":
					newID = o.id
					return old, nil
				case "tonil":
					// a filter that keeps nothing: nil is the ordinary way to return empty contents
					if p.Fresh {
						newID = o.id // (the fresh-file scenario keeps its empty state for the known finding F2)
						return old, nil
					}
					newID = empty
					return nil, nil
				case "longer":
					v := value(opid, len(old)+op.Delta)
					newID = identOf(v)
					return v, nil
				case "shorter":
					v := value(opid, max(len(old)-op.Delta, 0))
					newID = identOf(v)
					return v, nil
				case "aliasprefix":
					// the result is a prefix of the very slice the function was given
					hdr := bytes.IndexByte(old, '>') + 1
					k := max(hdr, len(old)-op.Delta)
					if o.id <= 0 || hdr <= 0 || k >= len(old) {
						newID = o.id
						return old, nil
					}
					id, ok := parse(old[:k])
					if !ok {
						out.Violate("torn-read", "the bytes Transform gave to its function changed while the function ran (a prefix of them is no longer a prefix of the value they held)")
						return old, nil
					}
					newID = id
					return old[:k], nil
				case "aliasappend":
					// the result extends the given slice in place (append into its spare capacity
					// when there is some): only a prefix value can grow towards its full length
					if o.id > 0 {
						if i := bytes.IndexByte(old, '>'); i > 0 {
							parts := bytes.Split(old[1:i], []byte(":"))
							vid, _ := strconv.Atoi(string(parts[0]))
							n, _ := strconv.Atoi(string(parts[1]))
							if extra := min(op.Delta, n-len(old)); extra > 0 {
								r := append(old, value(vid, n)[len(old):len(old)+extra]...)
								id, ok := parse(r)
								if !ok {
									out.Violate("torn-read", "the bytes Transform gave to its function changed while the function ran (extended in place they are no longer a prefix of the value they held)")
									return old, nil
								}
								newID = id
								return r, nil
							}
						}
					}
					newID = o.id
					return old, nil
				default:
					v := value(opid, len(old))
					if len(v) != len(old) {
						newID = o.id
						return old, nil
					}
					newID = identOf(v)
					return v, nil
				}
			})
			o.err = err != nil
			if err == nil && newID == empty && p.Fresh {
				newID = absent // an unchanged empty file
			}
			// patch the invoke event with the value actually produced
			for i := range r.events {
				if r.events[i].Id == eid && r.events[i].Kind == porcupine.CallEvent {
					r.events[i].Value = input{kind: "transform", id: newID}
				}
			}
			ret(r, client, eid, o)
			if err == nil && newID > 0 {
				r.published = true
			}
			if err != nil && op.TKind != "error" && client != 99 {
				out.Violate("transform-error", "Transform failed without an injected fault: %v", err)
			}
		}
	}

	rep := simrt.Run(t, simrt.Options{Sched: p.Sched, Strict: true, MaxSteps: 200000, KeepTrace: keep}, func(s *simrt.Sim) {
		remaining := len(p.Tasks)
		for ti, tp := range p.Tasks {
			ti, tp := ti, tp
			s.Go(fmt.Sprintf("p%d.t%d", tp.Proc, ti), tp.Proc, func() {
				defer func() { remaining-- }()
				for oi, op := range tp.Ops {
					doOp(s, ti+1, 100+ti*10+oi, op)
					if out.Violation != nil && out.Violation.Class != "torn-read" {
						return
					}
				}
			})
		}
		if p.Fault != nil {
			remaining++
			fl := []simos.Fault{{Proc: 9, Nth: p.Fault.K, Action: p.Fault.Action, Frac: p.Fault.Frac, Errno: p.Fault.Errno}}
			if p.Fault.Double {
				fl[0].Repeat = 1
			}
			simos.Arm(fl)
			s.Go("faulty-transform", 9, func() {
				defer func() { remaining-- }()
				doOp(s, 99, 900, p.Fault.Op)
			})
		}
		simrt.Block("join", func() bool { return remaining == 0 })
		simos.Disarm()
		_, fired := simos.Counters()
		faultFired = fired["kind:error"]+fired["kind:short"] > 0
		// a final quiescent read closes each history
		for _, r := range regs {
			eid := invoke(r, 98, input{kind: "read"})
			data, err := os.ReadFile(r.path)
			switch {
			case err != nil:
				ret(r, 98, eid, output{err: true, noexist: notExist(err)})
			case len(data) == 0 && p.Fresh && !r.published:
				// the file was created and nothing was ever published
				dropCall(r, eid)
			case len(data) == 0 && !p.Fresh && canEmpty:
				ret(r, 98, eid, output{id: empty})
			default:
				id, ok := parse(data)
				if !ok {
					out.Violate("torn-contents", "after quiescence the file holds %d bytes that are not exactly one written value", len(data))
					ret(r, 98, eid, output{id: -2})
				} else {
					ret(r, 98, eid, output{id: id})
				}
			}
		}
	})
	out.TraceHash, out.Steps, out.SimTime, out.Trace = rep.TraceHash, rep.Steps, rep.SimTime, rep.Trace
	simcheck.Panics(out, rep.Panics)
	if rep.Deadlock {
		out.Violate("deadlock", "no task can run: %s", rep.DescribeBlocked())
	}
	if rep.StepCap {
		// 200000 decisions is more than a thousand times what the longest fault-free plan needs: some
		// operation is spinning instead of completing
		out.Violate("no-progress", "operations did not complete within %d decisions: %s", rep.Steps, rep.DescribeBlocked())
	}
	if doubleFault {
		// rollback itself failing: contents are unspecified; only "no panic, no deadlock"
		if out.Violation != nil && out.Violation.Class != "panic" && out.Violation.Class != "deadlock" {
			out.Violation = nil
		}
		out.Count("double_fault_runs", 1)
	} else if out.Violation == nil && out.Inconclusive == "" {
		for fi, r := range regs {
			res := porcupine.CheckEventsTimeout(model, r.events, 20*time.Second)
			switch res {
			case porcupine.Illegal:
				out.Violate("not-linearizable", "the history of %d operations on file %d has no linearization against a register (stale read, lost update, a failed Transform that changed the contents, or contents that belong to another file): %s", len(r.events)/2, fi, describe(r.events))
			case porcupine.Unknown:
				out.Count("porcupine_unknown", 1)
			}
			out.Count("histories_checked", 1)
		}
	}
	f2Hits := 0
	for _, r := range regs {
		f2Hits += r.f2Hits
	}
	if out.Violation == nil && f2Hits > 0 {
		out.Violate("empty-read-before-first-write", "file absent at the start: %d Read call(s) returned empty contents with a nil error while the first Write/Transform had created the file but not yet locked and filled it", f2Hits)
	}
	if nfiles == 2 {
		out.Count("two_file_runs", 1)
	}
	out.Nontrivial = concurrentOps > 0
	ops, fired := simos.Counters()
	out.Count("flock_calls", simsys.Calls)
	out.Count("probe_lock_request_blocked", ops["flock-blocked"])
	out.Count("ops_started_while_another_in_flight", int64(concurrentOps))
	out.Count("reads_of_contents_emptied_by_a_transform", int64(emptyReads))
	for k, v := range fired {
		out.Count("fired_"+k, v)
	}
	if p.Fault != nil {
		if faultFired {
			out.Count("fault_transform_"+p.Fault.Op.TKind+"_fired", 1)
		}
	}
	if p.Fresh {
		out.Count("fresh_file_runs", 1)
	}
	return out
}

func describe(evs []porcupine.Event) string {
	var b bytes.Buffer
	for _, e := range evs {
		k := "call"
		if e.Kind == porcupine.ReturnEvent {
			k = "ret"
		}
		fmt.Fprintf(&b, "[c%d %s#%d %+v] ", e.ClientId, k, e.Id, e.Value)
		if b.Len() > 1500 {
			b.WriteString("...")
			break
		}
	}
	return b.String()
}

var harness = &simcheck.Harness{
	Property: "C07",
	Level:    "exploration",
	Rule: "rapid draws 1-3 simulated processes x 1-2 goroutines x 1-4 operations (Read, Write of a self-checking value of length 0..70000 fed in chunks, Transform producing a longer / shorter / same-length / unchanged value, a prefix of or an in-place extension of the slice it was given, no bytes at all (a nil slice; files that exist at the start only), or failing) " +
		"on one file, or spread over two files (a quarter of the plans; each file is its own register), that exist (5 of 6) or are absent at the start, named directly or (two plans in five) through a symbolic link by all or by every other client; a third of the plans add one Transform in its own process whose k-th file operation (open, flock, read, write, truncate, close) fails with EIO / ENOSPC / ENOSYS or writes short then fails; thorough adds double faults; " +
		"torn transfers on/off; histories of at most 24 operations are checked with porcupine; non-trivial = some operation started while another was in flight; distinct by decision-trace hash",
	Gen:     genPlan,
	NewPlan: func() any { return &Plan{} },
	Run:     run,
	Known: []simcheck.Known{{
		Key:  "F2-read-empty-before-first-write",
		What: "file absent at start: Read returns empty contents with nil error while the first Write/Transform has created the file but not yet locked it",
		Match: func(plan any, out *simcheck.Outcome) bool {
			return plan.(*Plan).Fresh && out.Violation != nil && out.Violation.Class == "empty-read-before-first-write"
		},
	}},
	Components: map[string]string{
		"lockedfile, lockedfile/internal/filelock": "real code from /repo's working tree, recompiled with substituted imports",
		"flock":           "real kernel flock(2), non-blocking; waiting emulated by the scheduler",
		"linearizability": "porcupine v1.3.0, register model, events ordered by the simulator's global event sequence",
		"I/O faults":      "injected by verif/sim/os into one Transform (error or short write at its k-th operation)",
	},
	Assumptions: []string{
		"a Transform that returned an error must leave the contents it was given (single fault); when the rollback is made to fail too (double fault) only absence of panic/deadlock is asserted",
		"faults are injected only into Transform (the statement promises rollback only there); a failing Write is out of scope",
	},
	RequiredCounters: []string{"flock_calls", "histories_checked", "ops_started_while_another_in_flight", "probe_lock_request_blocked"},
}

func TestSim(t *testing.T) { simcheck.Main(t, harness) }
