// Package tskit holds what the testscript harnesses (C01, C04, C17) share: a
// recording implementation of testscript.T whose subtests are simulator tasks
// (Parallel parks a subtest until the parent function has returned, as package
// testing does; FailNow / Skip end the task with runtime.Goexit), and the
// directory of stub executables.
package tskit

import (
	"fmt"
	"os"
	"path/filepath"
	"runtime"
	"strings"
	"sync"
	"time"

	"github.com/rogpeppe/go-internal/testscript"

	simrt "verif/sim/rt"
)

// Sub is the record of one subtest.
type Sub struct {
	Name     string
	Failed   bool
	Skipped  bool
	Finished bool
	EndAt    time.Duration // fake time since the run's epoch at which the subtest function ended
	Log      string
	Order    int           // order of completion
	StartAt  time.Duration // fake time at which the subtest left Parallel (started running for real)
}

// Root is the T handed to RunT.
type Root struct {
	mu       sync.Mutex
	s        *simrt.Sim
	epoch    time.Time
	verbose  bool
	released bool
	Subs     []*Sub
	RootLog  []string
	Fatal_   string // a Fatal on the root T (RunT could not start)
	nextProc int
	done     int
	// Limit is the number of parallel subtests that may run at once (go test
	// -parallel); 0 means no limit.
	Limit   int
	running int
	// Sequential makes Run wait for the subtest to finish and Parallel a no-op, like
	// the T of the standalone testscript command (the T interface allows both styles).
	Sequential bool
	// OnSubEnd, if set, is called in the subtest's task at the very instant its function has
	// ended (before any other task can run).
	OnSubEnd func(*Sub)
}

func NewRoot(s *simrt.Sim, epoch time.Time, verbose bool) *Root {
	return &Root{s: s, epoch: epoch, verbose: verbose, nextProc: 10}
}

type subT struct {
	r        *Root
	sub      *Sub
	counted  bool
	parallel bool
	logs     []string
}

var _ testscript.T = (*Root)(nil)
var _ testscript.T = (*subT)(nil)

func (r *Root) Skip(args ...any) {
	r.RootLog = append(r.RootLog, "SKIP: "+fmt.Sprint(args...))
	runtime.Goexit()
}
func (r *Root) Fatal(args ...any) { r.Fatal_ = fmt.Sprint(args...); runtime.Goexit() }
func (r *Root) Parallel()         {}
func (r *Root) Log(args ...any)   { r.RootLog = append(r.RootLog, fmt.Sprint(args...)) }
func (r *Root) FailNow()          { r.Fatal_ = "FailNow on root"; runtime.Goexit() }
func (r *Root) Verbose() bool     { return r.verbose }

// Run starts the subtest as a new task (in its own simulated process) and, like
// testing.T.Run, returns when the subtest function has returned or has called
// Parallel.
func (r *Root) Run(name string, f func(testscript.T)) {
	r.mu.Lock()
	sub := &Sub{Name: name}
	r.Subs = append(r.Subs, sub)
	r.nextProc++
	proc := r.nextProc
	r.mu.Unlock()
	st := &subT{r: r, sub: sub}
	r.s.Go("script:"+name, proc, func() {
		defer func() {
			r.mu.Lock()
			sub.Finished = true
			if st.counted {
				r.running--
			}
			sub.EndAt = time.Since(r.epoch)
			sub.Log = strings.Join(st.logs, "\n")
			r.done++
			sub.Order = r.done
			cb := r.OnSubEnd
			r.mu.Unlock()
			if cb != nil {
				cb(sub)
			}
		}()
		f(st)
	})
	simrt.Block("T.Run", func() bool {
		r.mu.Lock()
		defer r.mu.Unlock()
		if r.Sequential {
			return sub.Finished
		}
		return st.parallel || sub.Finished
	})
}

// Release lets the parallel subtests proceed (the parent function has
// returned) and waits until all of them have finished.
func (r *Root) Release() {
	r.mu.Lock()
	r.released = true
	r.mu.Unlock()
	simrt.Block("T.wait-subtests", func() bool {
		r.mu.Lock()
		defer r.mu.Unlock()
		for _, s := range r.Subs {
			if !s.Finished {
				return false
			}
		}
		return true
	})
}

func (t *subT) Skip(args ...any) {
	t.logs = append(t.logs, fmt.Sprint(args...))
	t.sub.Skipped = true
	runtime.Goexit()
}
func (t *subT) Fatal(args ...any) {
	t.logs = append(t.logs, fmt.Sprint(args...))
	t.sub.Failed = true
	runtime.Goexit()
}
func (t *subT) Parallel() {
	if t.r.Sequential {
		t.r.mu.Lock()
		t.sub.StartAt = time.Since(t.r.epoch)
		t.r.mu.Unlock()
		return
	}
	t.r.mu.Lock()
	t.parallel = true
	t.r.mu.Unlock()
	simrt.Block("T.Parallel", func() bool {
		t.r.mu.Lock()
		defer t.r.mu.Unlock()
		return t.r.released && (t.r.Limit == 0 || t.r.running < t.r.Limit)
	})
	t.r.mu.Lock()
	t.r.running++
	t.counted = true
	t.sub.StartAt = time.Since(t.r.epoch)
	t.r.mu.Unlock()
}
func (t *subT) Log(args ...any) { t.logs = append(t.logs, fmt.Sprint(args...)) }
func (t *subT) FailNow() {
	t.sub.Failed = true
	runtime.Goexit()
}
func (t *subT) Run(name string, f func(testscript.T)) {
	panic("nested subtests are not used by testscript")
}
func (t *subT) Verbose() bool { return t.r.verbose }

// BinDir creates (once per worker) a directory with empty executable files that
// scripts can name in exec lines; the stub in verif/sim/exec decides what they do.
func BinDir(names ...string) string {
	base := os.Getenv("VERIF_WORKDIR")
	if base == "" {
		base = os.TempDir()
	}
	d := filepath.Join(base, "stubbin")
	os.MkdirAll(d, 0o777)
	for _, n := range names {
		p := filepath.Join(d, n)
		if _, err := os.Stat(p); err != nil {
			os.WriteFile(p, []byte("#!/bin/false\n"), 0o755)
		}
	}
	return d
}
