// Package c05 decides C05: the cache returns exactly what was stored, or
// not-found - never other bytes - over histories of Put/lookup operations
// interleaved with damage at rest injected between operations (truncate, extend,
// flip, delete, replace, nearly-valid index entries), against a reference map.
package c05

import (
	"bytes"
	"crypto/sha256"
	"fmt"
	"os"
	"path/filepath"
	"strings"
	"testing"
	"time"

	"github.com/rogpeppe/go-internal/cache"
	"pgregory.net/rapid"

	"verif/harness/cachekit"
	simcheck "verif/sim/check"
	simos "verif/sim/os"
	simrt "verif/sim/rt"
	simtime "verif/sim/time"
)

type Step struct {
	Kind    string `json:"kind"` // put putreader get getbytes getfile outputfile damage
	ID      int    `json:"id"`
	Content int    `json:"content,omitempty"`
	Target  string `json:"target,omitempty"` // damage: index | data
	How     string `json:"how,omitempty"`    // truncate extend flip delete replace nearvalid
	Arg     int    `json:"arg,omitempty"`
	Variant int    `json:"variant,omitempty"`
	Secs    int64  `json:"secs,omitempty"` // clock: signed step of the simulated clock
}

type Plan struct {
	Sizes     []int  `json:"sizes"`
	Steps     []Step `json:"steps"`
	Chunk     int    `json:"chunk"`
	ReadChunk int    `json:"read_chunk"`
}

var sizeSet = []int{0, 1, 2, 100, 5000, 40000}

const nIDs = 3

func genPlan(t *rapid.T, tier string) any {
	p := &Plan{}
	nc := rapid.IntRange(1, 4).Draw(t, "ncontents")
	for i := 0; i < nc; i++ {
		p.Sizes = append(p.Sizes, rapid.SampledFrom(sizeSet).Draw(t, "size"))
	}
	p.Chunk = rapid.SampledFrom([]int{1, 7, 512, 4096, 1 << 20}).Draw(t, "chunk")
	p.ReadChunk = rapid.SampledFrom([]int{1, 16, 512, 4096, 65536}).Draw(t, "readchunk")
	max := 14
	if tier == "thorough" {
		max = 25
	}
	n := rapid.IntRange(1, max).Draw(t, "nsteps")
	for i := 0; i < n; i++ {
		s := Step{ID: rapid.IntRange(0, nIDs-1).Draw(t, "id")}
		switch k := rapid.IntRange(0, 14).Draw(t, "kind"); {
		case k == 13:
			// the content comes from a file of the caller's (an *os.File source), on the same file system
			s.Kind = "putfile"
			s.Content = rapid.IntRange(0, nc-1).Draw(t, "content")
		case k == 14:
			// the caller reuses its source files: rewritten in place with other bytes of the same length, or emptied
			s.Kind = "scribble"
			s.Arg = rapid.IntRange(0, 1).Draw(t, "scribblehow")
		case k == 12:
			// the wall clock steps (forwards, or backwards as after an NTP correction or a restored VM)
			s.Kind = "clock"
			s.Secs = rapid.SampledFrom([]int64{1, 3599, 3601, 86400, 6 * 86400, 400 * 86400, -1, -3599, -3601, -7200, -86400, -6 * 86400}).Draw(t, "clockstep")
		case k <= 2:
			s.Kind = "put"
			s.Content = rapid.IntRange(0, nc-1).Draw(t, "content")
		case k == 3:
			s.Kind = "putreader"
			s.Content = rapid.IntRange(0, nc-1).Draw(t, "content")
		case k == 4:
			s.Kind = "get"
		case k <= 6:
			s.Kind = "getbytes"
		case k <= 8:
			s.Kind = "getfile"
		case k == 9:
			s.Kind = "outputfile"
			s.Content = rapid.IntRange(0, nc-1).Draw(t, "content")
		default:
			s.Kind = "damage"
			s.Target = rapid.SampledFrom([]string{"index", "data"}).Draw(t, "target")
			s.Content = rapid.IntRange(0, nc-1).Draw(t, "content")
			if s.Target == "index" {
				s.How = rapid.SampledFrom([]string{"truncate", "extend", "flip", "delete", "replace", "nearvalid", "nearvalid", "isdir", "loop"}).Draw(t, "how")
			} else {
				s.How = rapid.SampledFrom([]string{"truncate", "extend", "flip", "delete", "replace", "symlink", "isdir", "loop"}).Draw(t, "how")
			}
			s.Arg = rapid.IntRange(0, 200).Draw(t, "arg")
			s.Variant = rapid.IntRange(0, 22).Draw(t, "variant")
		}
		p.Steps = append(p.Steps, s)
	}
	return p
}

// nearValid renders index-entry texts that are almost right.
func nearValid(variant int, id, other cache.ActionID, out, otherOut cache.OutputID, size, otherSize int64) []byte {
	good := cachekit.EntryText(id, out, size, 12345)
	switch variant {
	case 0: // entry of another action id
		return []byte(cachekit.EntryText(other, out, size, 12345))
	case 1: // right id, another existing output with that output's size
		return []byte(cachekit.EntryText(id, otherOut, otherSize, 12345))
	case 2: // right id, another output but this output's size
		return []byte(cachekit.EntryText(id, otherOut, size, 12345))
	case 3: // upper-case hex
		return []byte("v1 " + string(bytes.ToUpper([]byte(good[3:3+64]))) + good[3+64:])
	case 4: // explicit plus sign in the size
		return []byte(fmt.Sprintf("v1 %x %x %20s %20d\n", id[:], out[:], fmt.Sprintf("+%d", size), 12345))
	case 5: // negative size
		return []byte(fmt.Sprintf("v1 %x %x %20d %20d\n", id[:], out[:], -size-1, 12345))
	case 6: // huge size
		return []byte(fmt.Sprintf("v1 %x %x %20d %20d\n", id[:], out[:], int64(1)<<62, 12345))
	case 7: // one byte too long
		return []byte(good + "x")
	case 8: // one byte short (no newline)
		return []byte(good[:len(good)-1])
	case 9: // size one larger than the file
		return []byte(cachekit.EntryText(id, out, size+1, 12345))
	case 10: // size one smaller than the file
		return []byte(cachekit.EntryText(id, out, size-1, 12345))
	case 12: // size field entirely blank
		return []byte(fmt.Sprintf("v1 %x %x %20s %20d\n", id[:], out[:], "", 12345))
	case 13: // timestamp field entirely blank
		return []byte(fmt.Sprintf("v1 %x %x %20d %20s\n", id[:], out[:], size, ""))
	case 14: // number followed by a blank instead of being right-aligned
		return []byte(fmt.Sprintf("v1 %x %x %-20d %20d\n", id[:], out[:], size, 12345))
	case 15: // other format version
		return []byte("v2" + good[2:])
	case 16: // tab instead of a separating space
		return []byte(good[:2] + "\t" + good[3:])
	case 17: // a non-hex character in the output id
		return []byte(good[:3+64+1] + "g" + good[3+64+2:])
	case 18: // carriage return instead of the final newline
		return []byte(good[:len(good)-1] + "\r")
	case 19: // minus sign in the timestamp
		return []byte(fmt.Sprintf("v1 %x %x %20d %20d\n", id[:], out[:], size, -12345))
	case 20: // size zero although the output is not empty (or the other way round)
		return []byte(cachekit.EntryText(id, out, 0, 12345))
	case 21: // one bit flipped in the output id of an otherwise valid entry
		b := []byte(good)
		b[3+64+1+5] ^= 1
		return b
	default: // spaces inside the number
		return []byte(fmt.Sprintf("v1 %x %x %18d 1 %20d\n", id[:], out[:], size, 12345))
	}
}

func run(t *testing.T, plan any, keep bool) *simcheck.Outcome {
	p := plan.(*Plan)
	out := &simcheck.Outcome{}
	dir := cachekit.Dir()
	cachekit.Wipe(dir)
	simos.Reset()
	simtime.Reset()
	simos.SetReadChunk(p.ReadChunk)

	contents := make([][]byte, len(p.Sizes))
	outIDs := make([]cache.OutputID, len(p.Sizes))
	for i, sz := range p.Sizes {
		contents[i] = cachekit.Content(i+1, sz)
		outIDs[i] = cachekit.OutputID(contents[i])
	}
	contentOf := func(o cache.OutputID) int {
		for i := range outIDs {
			if outIDs[i] == o {
				return i
			}
		}
		return -1
	}
	// reference model
	stored := make([]int, nIDs)
	for i := range stored {
		stored[i] = -1
	}
	indexDamaged := make([]bool, nIDs)
	dataDamaged := map[cache.OutputID]bool{}
	damageSeen, lookupAfterDamage, repairs := false, 0, 0
	// byte slices handed out by GetBytes, with a private copy: they belong to the caller from then on
	type heldBytes struct {
		got, copy []byte
		where     string
	}
	var held []heldBytes
	clockBack, scribbles, oddPutFailures := 0, 0, 0
	var sources []string // the caller's own files that were handed to Put
	defer func() {
		for _, src := range sources {
			os.Remove(src)
		}
	}()

	rep := simrt.Run(t, simrt.Options{Sched: simrt.Sched{Policy: "random", Seed: 1}, Strict: true, MaxSteps: 200000, KeepTrace: keep}, func(s *simrt.Sim) {
		c, err := cache.Open(dir)
		if err != nil {
			out.Inconclusive = "cache.Open: " + err.Error()
			return
		}
		// what a miss looks like in this build: the error for an id that was plainly never stored
		_, err0 := c.Get(cachekit.ActionID(7))
		missType := fmt.Sprintf("%T", err0)
		notAMiss := func(where string, err error) {
			if err != nil && fmt.Sprintf("%T", err) != missType {
				out.Violate("not-a-miss-error", "%s: the lookup failed with %T (%v), not with the not-found error a plain miss gives (%s): a caller cannot tell it is a miss", where, err, err, missType)
			}
		}
		for si, st := range p.Steps {
			id := cachekit.ActionID(st.ID)
			where := fmt.Sprintf("step %d %s(id%d)", si, st.Kind, st.ID)
			intact := stored[st.ID] >= 0 && !indexDamaged[st.ID] && !dataDamaged[outIDs[stored[st.ID]]]
			untouchedMissing := stored[st.ID] < 0 && !indexDamaged[st.ID]
			if damageSeen && (st.Kind == "get" || st.Kind == "getbytes" || st.Kind == "getfile") {
				lookupAfterDamage++
			}
			for _, h := range held {
				if !bytes.Equal(h.got, h.copy) {
					out.Violate("bytes-changed-after-return", "%s: the bytes returned earlier by %s changed in the caller's hands", where, h.where)
					return
				}
			}
			switch st.Kind {
			case "clock":
				simtime.Advance(time.Duration(st.Secs) * time.Second)
				if st.Secs < 0 {
					clockBack++
				}
			case "scribble":
				for _, src := range sources {
					if st.Arg == 0 {
						if old, err := os.ReadFile(src); err == nil {
							os.WriteFile(src, cachekit.Content(3000+si, len(old)), 0o666)
						}
					} else {
						os.Truncate(src, 0)
					}
					scribbles++
				}
			case "put", "putreader", "putfile":
				data := contents[st.Content]
				wasDamaged := dataDamaged[outIDs[st.Content]]
				var err error
				if st.Kind == "put" {
					err = c.PutBytes(id, data)
				} else if st.Kind == "putfile" {
					src := filepath.Join(dir, "..", fmt.Sprintf("c05-src-%d-%d", si, st.Content))
					os.WriteFile(src, data, 0o666)
					sources = append(sources, src)
					f, oerr := simos.Open(src)
					if oerr != nil {
						out.Inconclusive = "open source: " + oerr.Error()
						return
					}
					var o cache.OutputID
					var n int64
					o, n, err = c.Put(id, f)
					f.Close()
					if err == nil && (o != outIDs[st.Content] || n != int64(len(data))) {
						out.Violate("put-wrong-result", "%s: Put returned output %x size %d, want %x size %d", where, o[:4], n, outIDs[st.Content][:4], len(data))
					}
				} else {
					var o cache.OutputID
					var n int64
					o, n, err = c.Put(id, &cachekit.ChunkReader{Data: data, Chunk: max(p.Chunk, len(data)/24)})
					if err == nil && (o != outIDs[st.Content] || n != int64(len(data))) {
						out.Violate("put-wrong-result", "%s: Put returned output %x size %d, want %x size %d", where, o[:4], n, outIDs[st.Content][:4], len(data))
					}
				}
				if err != nil {
					// a directory or a looping link where a cache file belongs is not among the kinds of damage
					// a Put promises to repair: it may fail then (and changes nothing in the model)
					odd := func(path string) bool {
						fi, lerr := os.Lstat(path)
						if lerr != nil {
							return false
						}
						if fi.IsDir() {
							return true
						}
						_, serr := os.Stat(path)
						return fi.Mode()&os.ModeSymlink != 0 && serr != nil
					}
					if odd(cachekit.IndexPath(dir, id)) || odd(cachekit.DataPath(dir, outIDs[st.Content])) {
						oddPutFailures++
						continue
					}
					out.Violate("put-error", "%s: Put failed in a fault-free run: %v", where, err)
					return
				}
				stored[st.ID] = st.Content
				indexDamaged[st.ID] = false
				if wasDamaged {
					repairs++
				}
				dataDamaged[outIDs[st.Content]] = false
			case "get":
				e, err := c.Get(id)
				notAMiss(where, err)
				if intact {
					want := stored[st.ID]
					if err != nil {
						out.Violate("lost-entry", "%s: undamaged stored entry not found: %v", where, err)
					} else if e.OutputID != outIDs[want] || e.Size != int64(len(contents[want])) {
						out.Violate("wrong-entry", "%s: Get returned output %x size %d, stored %x size %d", where, e.OutputID[:4], e.Size, outIDs[want][:4], len(contents[want]))
					}
				} else if untouchedMissing && err == nil {
					out.Violate("phantom-entry", "%s: Get succeeded for an id that was never stored", where)
				}
			case "getbytes":
				data, e, err := c.GetBytes(id)
				notAMiss(where, err)
				if err == nil && len(held) < 8 {
					held = append(held, heldBytes{data, append([]byte(nil), data...), where})
				}
				if err == nil {
					if sha256.Sum256(data) != e.OutputID {
						out.Violate("bad-bytes", "%s: GetBytes returned %d bytes whose SHA-256 is not the reported OutputID %x", where, len(data), e.OutputID[:4])
					}
				}
				if intact {
					want := contents[stored[st.ID]]
					if err != nil {
						out.Violate("lost-entry", "%s: undamaged stored entry not readable: %v", where, err)
					} else if !bytes.Equal(data, want) {
						out.Violate("wrong-bytes", "%s: GetBytes returned %d bytes, stored content has %d bytes and differs", where, len(data), len(want))
					}
				} else if untouchedMissing && err == nil {
					out.Violate("phantom-entry", "%s: GetBytes succeeded for an id that was never stored", where)
				}
			case "getfile":
				file, e, err := c.GetFile(id)
				notAMiss(where, err)
				if err == nil {
					fi, serr := os.Stat(file)
					if serr != nil {
						out.Violate("bad-file", "%s: GetFile named %s which cannot be examined: %v", where, file, serr)
					} else if fi.Size() != e.Size {
						out.Violate("bad-file", "%s: GetFile named a file of %d bytes, reported size %d", where, fi.Size(), e.Size)
					}
				}
				if intact {
					want := contents[stored[st.ID]]
					if err != nil {
						out.Violate("lost-entry", "%s: undamaged stored entry has no file: %v", where, err)
					} else if got, rerr := os.ReadFile(file); rerr != nil || !bytes.Equal(got, want) {
						out.Violate("wrong-bytes", "%s: file named by GetFile does not hold the stored content (%d vs %d bytes, err %v)", where, len(got), len(want), rerr)
					}
				} else if untouchedMissing && err == nil {
					out.Violate("phantom-entry", "%s: GetFile succeeded for an id that was never stored", where)
				}
			case "outputfile":
				name := c.OutputFile(outIDs[st.Content])
				if name != cachekit.DataPath(dir, outIDs[st.Content]) {
					out.Violate("layout", "%s: OutputFile = %s, documented layout says %s", where, name, cachekit.DataPath(dir, outIDs[st.Content]))
				}
			case "damage":
				damageSeen = true
				func() {
					var path string
					if st.Target == "index" {
						path = cachekit.IndexPath(dir, id)
					} else {
						path = cachekit.DataPath(dir, outIDs[st.Content])
					}
					old, rerr := os.ReadFile(path)
					exists := rerr == nil
					_, lerr0 := os.Lstat(path)
					defer func(target string, sid, content int) {
						// the model marks the file damaged only if the step changed it
						now, nerr := os.ReadFile(path)
						_, lerr1 := os.Lstat(path)
						if (nerr == nil) == exists && bytes.Equal(now, old) && (lerr0 == nil) == (lerr1 == nil) {
							return
						}
						if target == "index" {
							indexDamaged[sid] = true
						} else {
							dataDamaged[outIDs[content]] = true
						}
					}(st.Target, st.ID, st.Content)
					switch st.How {
					case "truncate":
						if exists {
							k := 0
							if len(old) > 0 {
								k = st.Arg % len(old)
							}
							os.Truncate(path, int64(k))
						}
					case "extend":
						if exists {
							f, _ := os.OpenFile(path, os.O_WRONLY|os.O_APPEND, 0)
							f.Write(cachekit.Content(99, 1+st.Arg%50))
							f.Close()
						}
					case "flip":
						if exists && len(old) > 0 {
							b := append([]byte(nil), old...)
							b[st.Arg%len(b)] ^= 1 << (st.Variant % 8)
							os.WriteFile(path, b, 0o666)
						}
					case "delete":
						os.RemoveAll(path)
					case "isdir":
						// a directory where the file should be (opening works, reading fails)
						os.RemoveAll(path)
						os.MkdirAll(filepath.Join(path, "x"), 0o777)
					case "loop":
						// a symbolic link to itself (opening fails, but not with "does not exist")
						os.RemoveAll(path)
						os.Symlink(filepath.Base(path), path)
					case "replace":
						n := st.Arg
						if st.Variant%3 == 0 && exists {
							n = len(old) // same size, other bytes
						}
						os.WriteFile(path, cachekit.Content(1000+st.Arg, n), 0o666)
					case "symlink":
						// the data file becomes a symbolic link to a file of another length; where it fits,
						// the length of the link's target *path* equals the stored size (what lstat reports)
						if exists {
							target := filepath.Join(dir, "zz-"+filepath.Base(path)[:10])
							if want := len(old); want > len(target)+1 && want < 250 {
								target += strings.Repeat("x", want-len(target))
							}
							os.WriteFile(target, cachekit.Content(2000+st.Arg, len(old)+1+st.Arg%7), 0o666)
							os.Remove(path)
							os.Symlink(target, path)
						}
					case "nearvalid":
						// only for index files
						cur := stored[st.ID]
						if cur < 0 {
							cur = st.Content
						}
						oc := (cur + 1) % len(contents)
						other := cachekit.ActionID((st.ID + 1) % nIDs)
						os.WriteFile(path, nearValid(st.Variant, id, other, outIDs[cur], outIDs[oc], int64(len(contents[cur])), int64(len(contents[oc]))), 0o666)
					}
				}()
			}
			if out.Violation != nil {
				return
			}
		}
		// every named output the model believes intact must still be intact on disk
		for i := 0; i < nIDs; i++ {
			if stored[i] >= 0 && !indexDamaged[i] && !dataDamaged[outIDs[stored[i]]] {
				got, err := os.ReadFile(cachekit.DataPath(dir, outIDs[stored[i]]))
				if err != nil || !bytes.Equal(got, contents[stored[i]]) {
					out.Violate("wrong-bytes", "end of history: stored content of id%d is not on disk (%v)", i, err)
				}
			}
		}
	})
	_ = contentOf
	out.TraceHash, out.Steps, out.SimTime, out.Trace = rep.TraceHash, rep.Steps, rep.SimTime, rep.Trace
	simcheck.Panics(out, rep.Panics)
	if rep.Deadlock || rep.StepCap {
		out.Inconclusive = "single-task run did not finish: " + rep.DescribeBlocked()
	}
	out.Nontrivial = lookupAfterDamage > 0
	if d := simtime.Offset().Seconds(); d > 0 {
		out.SimSeconds = d
	}
	ops, _ := simos.Counters()
	for k, v := range ops {
		out.Count("op_"+k, v)
	}
	out.Count("lookups_after_damage", int64(lookupAfterDamage))
	out.Count("repairs_by_put", int64(repairs))
	out.Count("fault_clock_stepped_back", int64(clockBack))
	out.Count("puts_refused_over_a_directory_or_link_loop", int64(oddPutFailures))
	out.Count("source_files_rewritten_after_put", int64(scribbles))
	for _, st := range p.Steps {
		if st.Kind == "damage" {
			out.Count("damage_"+st.Target+"_"+st.How, 1)
		}
	}
	return out
}

var harness = &simcheck.Harness{
	Property: "C05",
	Level:    "exploration",
	Rule: "rapid draws a history of up to 14 (quick) / 25 (thorough) steps over 3 action ids and up to 4 contents of sizes {0,1,2,100,5000,40000}: " +
		"Put (PutBytes, a chunking ReadSeeker, or a file of the caller's that it later rewrites in place or empties), Get, GetBytes, GetFile, OutputFile, steps of the wall clock (1s .. 400d forwards, 1s .. 6d backwards), and damage steps applied with the raw OS between operations " +
		"(truncate/extend/flip/delete/replace of index or data files, a directory or a symbolic link to itself in their place, data files replaced by symbolic links, 23 kinds of nearly valid index entries); every byte slice returned by GetBytes is re-compared with a private copy before each later step; non-trivial = at least one lookup after a damage step; " +
		"distinct by the hash of the intercepted file-operation sequence",
	Gen:     genPlan,
	NewPlan: func() any { return &Plan{} },
	Run:     run,
	Components: map[string]string{
		"cache, lockedfile, filelock": "real code from /repo's working tree, recompiled with substituted imports",
		"file system":                 "real kernel file system in a private directory, reached through verif/sim/os",
		"damage":                      "injected by the harness with the raw OS between operations",
		"clock":                       "simulated: time.Now in cache -> verif/sim/time; stepped forwards and backwards by clock steps of the history",
	},
	Assumptions: []string{
		"single task: no concurrency and no I/O faults in this check (those are C11 and C12); the fault dimension is damage at rest",
		"a failed lookup must fail with an error of the same dynamic type as the error for a plainly absent entry (the package exports no predicate; the type is learnt from the build under test at the start of each run)",
	},
	RequiredCounters: []string{"op_open", "op_read", "op_write", "lookups_after_damage"},
}

func TestSim(t *testing.T) { simcheck.Main(t, harness) }
