// Package c10 decides C10: par.Cache computes each key exactly once, every Do
// returns that one result and not before it exists, Get never blocks - for
// every interleaving of the sync.Map / atomic / Mutex operations of several
// goroutines (seeded schedule search over the real par/work.go).
package c10

import (
	"fmt"
	"testing"
	"time"

	"github.com/rogpeppe/go-internal/par"
	"pgregory.net/rapid"

	simatomic "verif/sim/atomic"
	simcheck "verif/sim/check"
	"verif/sim/gen"
	simrt "verif/sim/rt"
	simsync "verif/sim/sync"
)

type Op struct {
	Get bool `json:"get,omitempty"`
	Key int  `json:"key"`
}

type Plan struct {
	Tasks  [][]Op      `json:"tasks"`
	Yields []int       `json:"yields"` // per key: yields inside f
	Nil    []bool      `json:"nil"`    // per key: f returns nil
	Val    []int       `json:"val,omitempty"`  // per key: what kind of value f returns (0 a string, 1 true, 2 false, 3 an int, 4 a pointer)
	Slow   []int       `json:"slow,omitempty"` // per key: simulated seconds f takes (it sleeps on the fake clock)
	Sched  simrt.Sched `json:"sched"`
}

func genPlan(t *rapid.T, tier string) any {
	nk := rapid.IntRange(1, 3).Draw(t, "keys")
	nt := rapid.IntRange(2, 5).Draw(t, "tasks")
	p := &Plan{}
	for k := 0; k < nk; k++ {
		p.Yields = append(p.Yields, rapid.IntRange(0, 3).Draw(t, "yields"))
		p.Nil = append(p.Nil, rapid.IntRange(0, 7).Draw(t, "nil") == 0)
		slow := 0
		if rapid.IntRange(0, 5).Draw(t, "slow") == 0 {
			// a computation that takes long: however long, it is done once and everybody waits for it
			slow = rapid.SampledFrom([]int{1, 6, 61, 3600}).Draw(t, "slowsecs")
		}
		p.Slow = append(p.Slow, slow)
		p.Val = append(p.Val, rapid.SampledFrom([]int{0, 0, 0, 1, 2, 3, 4}).Draw(t, "valkind"))
	}
	for i := 0; i < nt; i++ {
		n := rapid.IntRange(1, 4).Draw(t, "nops")
		var ops []Op
		for j := 0; j < n; j++ {
			ops = append(ops, Op{Get: rapid.IntRange(0, 2).Draw(t, "isget") == 0, Key: rapid.IntRange(0, nk-1).Draw(t, "key")})
		}
		p.Tasks = append(p.Tasks, ops)
	}
	p.Sched = gen.Sched(t, 150)
	return p
}

// distinct keys of different dynamic types, two of them with the same string contents
type modPath string

var keyValues = []any{"k", modPath("k"), 7}

func run(t *testing.T, plan any, keep bool) *simcheck.Outcome {
	p := plan.(*Plan)
	out := &simcheck.Outcome{}
	simsync.ResetStats()
	simatomic.Ops = 0
	nk := len(p.Yields)
	invocations := make([]int, nk)
	fDone := make([]bool, nk)
	fRunning := make([]bool, nk)
	value := make([]any, nk)
	doReturned := make([]bool, nk) // some Do(key) has returned
	overlapDo, getDuringF, secondDoDuringF := false, false, false

	anySlow := false
	for _, sl := range p.Slow {
		anySlow = anySlow || sl > 0
	}
	// with a sleeping f nothing may be eligible for a while: the scheduler then idles on the fake clock
	// (a run in which nothing happens for two simulated hours is a deadlock)
	rep := simrt.Run(t, simrt.Options{Sched: p.Sched, Strict: !anySlow, IdleCap: 2 * time.Hour, MaxSteps: 20000, KeepTrace: keep}, func(s *simrt.Sim) {
		var c par.Cache
		for ti, ops := range p.Tasks {
			ops := ops
			s.Go(fmt.Sprintf("client%d", ti), 0, func() {
				tk := s.TaskOf()
				for _, op := range ops {
					k := op.Key
					if op.Get {
						before, _ := tk.Local["mutexBlocked"].(int)
						mustHave := doReturned[k]
						if fRunning[k] {
							getDuringF = true
						}
						v := c.Get(keyValues[k])
						after, _ := tk.Local["mutexBlocked"].(int)
						if after != before {
							out.Violate("get-blocked", "Get(%d) waited for a mutex", k)
						}
						if v != nil && (!fDone[k] || v != value[k]) {
							out.Violate("get-wrong-value", "Get(%d) = %v, but the one computed value is %v (computed=%v)", k, v, value[k], fDone[k])
						}
						if v == nil && mustHave && !p.Nil[k] {
							out.Violate("get-stale", "Get(%d) = nil although a Do(%d) had already returned", k, k)
						}
						continue
					}
					if fRunning[k] {
						secondDoDuringF = true
					}
					v := c.Do(keyValues[k], func() any {
						invocations[k]++
						if invocations[k] > 1 {
							out.Violate("double-compute", "f for key %d invoked %d times", k, invocations[k])
						}
						fRunning[k] = true
						for i := 0; i < p.Yields[k]; i++ {
							simrt.Yield("f")
						}
						if k < len(p.Slow) && p.Slow[k] > 0 {
							time.Sleep(time.Duration(p.Slow[k]) * time.Second)
							simrt.Yield("f.woke")
						}
						var r any
						if !p.Nil[k] {
							r = fmt.Sprintf("k%d#%d", k, invocations[k])
							if k < len(p.Val) {
								switch p.Val[k] {
								case 1:
									r = true
								case 2:
									r = false
								case 3:
									r = 1000*k + invocations[k]
								case 4:
									r = &invocations[k]
								}
							}
						}
						value[k] = r
						fRunning[k] = false
						fDone[k] = true
						return r
					})
					if !fDone[k] {
						if invocations[k] == 0 {
							out.Violate("no-compute", "Do(%d) returned %v but f was never invoked", k, v)
						} else {
							out.Violate("early-return", "Do(%d) returned %v before the one call of f completed", k, v)
						}
					} else if v != value[k] {
						out.Violate("do-wrong-value", "Do(%d) = %v, the one call of f returned %v", k, v, value[k])
					}
					doReturned[k] = true
				}
			})
		}
	})
	_ = overlapDo
	out.TraceHash, out.Steps, out.SimTime, out.Trace = rep.TraceHash, rep.Steps, rep.SimTime, rep.Trace
	simcheck.Panics(out, rep.Panics)
	if rep.Deadlock {
		out.Violate("deadlock", "no task can run: %s", rep.DescribeBlocked())
	}
	if rep.StepCap {
		out.Violate("no-termination", "not finished within %d decisions: %s", rep.Steps, rep.DescribeBlocked())
	}
	if rep.BubbleErr != "" && out.Violation == nil {
		out.Inconclusive = "bubble: " + rep.BubbleErr
	}
	out.Nontrivial = secondDoDuringF || getDuringF
	out.Count("mutex_lock", simsync.Stats.MutexLock)
	out.Count("map_ops", simsync.Stats.MapOps)
	out.Count("atomic_ops", simatomic.Ops)
	out.Count("sync_ops", simsync.Ops+simatomic.Ops)
	out.Count("context_switches", int64(rep.Switches))
	if secondDoDuringF {
		out.Count("probe_second_Do_while_f_running", 1)
	}
	if getDuringF {
		out.Count("probe_Get_while_f_running", 1)
	}
	out.Count("policy_"+p.Sched.Policy, 1)
	return out
}

var harness = &simcheck.Harness{
	Property: "C10",
	Level:    "exploration",
	Rule: "rapid draws 2-5 client tasks with 1-4 Do/Get calls each over 1-3 keys, yield counts inside f, nil-returning keys, values of several kinds (string, bool, int, struct), and a schedule; " +
		"non-trivial = a second Do or a Get was issued for a key while its f was in progress; distinct by decision-trace hash",
	Gen:     genPlan,
	NewPlan: func() any { return &Plan{} },
	Run:     run,
	Components: map[string]string{
		"par.Cache (par/work.go)":       "real code from /repo's working tree, recompiled with substituted imports",
		"sync.Map":                      "real sync.Map behind a yield per method (verif/sim/sync)",
		"sync.Mutex":                    "stub: implemented by the scheduler",
		"atomic.LoadUint32/StoreUint32": "real atomic operation behind a yield (verif/sim/atomic)",
		"goroutine scheduling":          "real goroutines released one at a time by the seeded scheduler",
	},
	Assumptions: []string{
		"sequentially consistent interleavings at seam granularity; hardware/compiler reordering (the memory-model half of safe publication) is not observable here and not claimed",
	},
	RequiredCounters: []string{"sync_ops"},
}

func TestSim(t *testing.T) { simcheck.Main(t, harness) }
