// Package c09 decides C09: par.Work runs every item exactly once, with at most n
// calls in progress, and Do returns only when everything is done - for every
// interleaving of its workers (seeded schedule search over the real par/work.go
// compiled against simulated sync / math/rand).
package c09

import (
	"fmt"
	"sort"
	"testing"
	"time"

	"github.com/rogpeppe/go-internal/par"
	"pgregory.net/rapid"

	simcheck "verif/sim/check"
	"verif/sim/gen"
	simrand "verif/sim/rand"
	simrt "verif/sim/rt"
	simsync "verif/sim/sync"
)

type Plan struct {
	Workers  int         `json:"workers"`
	Children [][]int     `json:"children"` // children[i]: items added while processing item i
	Initial  []int       `json:"initial"`
	Before   []int       `json:"before"`             // yields before adding children, per item
	After    []int       `json:"after"`              // yields after adding children, per item
	WaitFor  []int       `json:"wait_for,omitempty"` // per item: after adding its children, f blocks until this child (index into children) has started; -1 none
	NilItem  int         `json:"nil_item,omitempty"` // 1+index of the item that is represented by an untyped nil (0: none)
	External []int       `json:"external,omitempty"`  // items that another goroutine adds while Do runs (the first initial item's f waits for that goroutine, so they are all added during the run)
	Sibling  int         `json:"sibling,omitempty"`   // >0: an earlier Work runs to completion first, then a second Work with this many items of its own runs beside the main one
	SlowItem int         `json:"slow_item,omitempty"` // 1+index of an item whose f takes SlowMs of simulated time (it sleeps on the fake clock)
	SlowMs   int         `json:"slow_ms,omitempty"`
	Sched    simrt.Sched `json:"sched"`
}

func genPlan(t *rapid.T, tier string) any {
	maxItems := 8
	if tier == "thorough" {
		maxItems = 12
	}
	n := rapid.IntRange(1, maxItems).Draw(t, "items")
	p := &Plan{Workers: rapid.IntRange(1, 4).Draw(t, "workers")}
	// wide plans: few workers, a long backlog and items that fan out widely (queue-size
	// dependent behaviour: batching, back-pressure, growth of the pending list)
	wide := rapid.IntRange(0, 3).Draw(t, "wide") == 0
	maxKids, maxInit := 3, 3
	if wide {
		n = rapid.IntRange(12, 40).Draw(t, "wideitems")
		p.Workers = rapid.IntRange(1, 2).Draw(t, "wideworkers")
		maxKids, maxInit = 24, n
	}
	// burst plans: far more items queued at one time than any fixed small capacity a queue
	// implementation might start with, then a complete drain
	burst := !wide && rapid.IntRange(0, 9).Draw(t, "burst") == 0
	if burst {
		n = rapid.IntRange(66, 140).Draw(t, "burstitems")
		p.Workers = rapid.IntRange(1, 3).Draw(t, "burstworkers")
	}
	for i := 0; i < n; i++ {
		if burst {
			var kids []int
			if i == 0 && len(p.Initial) == 0 {
				// all at once: either queued before Do starts, or added by the first call of f
				if rapid.Bool().Draw(t, "burstbefore") {
					for k := 0; k < n; k++ {
						p.Initial = append(p.Initial, k)
					}
				} else {
					p.Initial = []int{0}
					for k := 1; k < n; k++ {
						kids = append(kids, k)
					}
				}
			} else if rapid.IntRange(0, 9).Draw(t, "burstkid") == 0 {
				kids = []int{rapid.IntRange(0, n-1).Draw(t, "burstchild")}
			}
			p.Children = append(p.Children, kids)
			p.Before = append(p.Before, 0)
			p.After = append(p.After, rapid.IntRange(0, 1).Draw(t, "after"))
			p.WaitFor = append(p.WaitFor, -1)
			continue
		}
		// children may repeat, point backwards, at the item itself, or form cycles
		mk := 3
		if wide && rapid.IntRange(0, 5).Draw(t, "fanout") == 0 {
			mk = maxKids
		}
		p.Children = append(p.Children, rapid.SliceOfN(rapid.IntRange(0, n-1), 0, mk).Draw(t, "children"))
		p.Before = append(p.Before, rapid.IntRange(0, 2).Draw(t, "before"))
		p.After = append(p.After, rapid.IntRange(0, 2).Draw(t, "after"))
		w := -1
		if len(p.Children[i]) > 0 && rapid.IntRange(0, 3).Draw(t, "rendezvous") == 0 {
			w = rapid.IntRange(0, len(p.Children[i])-1).Draw(t, "waitfor")
		}
		p.WaitFor = append(p.WaitFor, w)
	}
	if !burst {
		p.Initial = rapid.SliceOfN(rapid.IntRange(0, n-1), 0, maxInit).Draw(t, "initial")
	}
	if rapid.IntRange(0, 3).Draw(t, "nilitem") == 0 {
		p.NilItem = 1 + rapid.IntRange(0, n-1).Draw(t, "whichnil")
	}
	if !wide && !burst && rapid.IntRange(0, 99).Draw(t, "manyworkers") == 0 {
		// far more workers than items (n is the caller's choice; a build machine with hundreds of cores passes hundreds)
		p.Workers = rapid.SampledFrom([]int{64, 255, 256, 257, 300}).Draw(t, "hugeworkers")
	}
	if len(p.Initial) > 0 && rapid.IntRange(0, 5).Draw(t, "external") == 0 {
		p.External = rapid.SliceOfN(rapid.IntRange(0, n-1), 1, 4).Draw(t, "externalitems")
	}
	if rapid.IntRange(0, 7).Draw(t, "sibling") == 0 {
		// Work values are independent of each other: one used up earlier, and another in use at the same time
		p.Sibling = rapid.IntRange(1, 6).Draw(t, "siblingitems")
	}
	if rapid.IntRange(0, 5).Draw(t, "slow") == 0 {
		// one call of f takes long: however long, Do waits for it and nothing else changes
		p.SlowItem = 1 + rapid.IntRange(0, n-1).Draw(t, "slowitem")
		p.SlowMs = rapid.SampledFrom([]int{1, 150, 250, 1000, 61000}).Draw(t, "slowms")
	}
	p.Sched = gen.Sched(t, 400)
	return p
}

func closure(p *Plan) map[int]bool {
	seen := map[int]bool{}
	todo := append([]int(nil), p.Initial...)
	todo = append(todo, p.External...)
	for len(todo) > 0 {
		i := todo[len(todo)-1]
		todo = todo[:len(todo)-1]
		if seen[i] {
			continue
		}
		seen[i] = true
		todo = append(todo, p.Children[i]...)
	}
	return seen
}

func keys(m map[int]bool) []int {
	var ks []int
	for k := range m {
		ks = append(ks, k)
	}
	sort.Ints(ks)
	return ks
}

func run(t *testing.T, plan any, keep bool) *simcheck.Outcome {
	p := plan.(*Plan)
	out := &simcheck.Outcome{}
	simsync.ResetStats()
	simrand.Draws = 0
	want := closure(p)

	// Rendezvous: a call of f may wait until one of the items it just added has
	// started. At most n-1 items are allowed to wait, so a worker that is not
	// waiting always exists and a correct Work always makes progress; a lost
	// wake-up (an idle worker that is never told about queued work) then shows
	// as a deadlock instead of as mere loss of parallelism.
	waits := map[int]int{}
	for i, w := range p.WaitFor {
		if w >= 0 && i < len(p.Children) && w < len(p.Children[i]) && len(waits) < p.Workers-1 {
			waits[i] = p.Children[i][w]
		}
	}
	started := map[int]bool{}
	rendezvous := 0
	calls := map[int]int{}
	runners := map[int]bool{}
	inflight, maxInflight := 0, 0
	returned := false
	slept := 0
	siblingCalls := map[int]int{}

	// 50x the longest fault-free run seen for these sizes (about 400 decisions)
	// with a sleeping f nothing may be eligible for a while: the scheduler then idles on the fake clock
	// (a run in which nothing happens for two simulated hours counts as a deadlock)
	rep := simrt.Run(t, simrt.Options{Sched: p.Sched, Strict: p.SlowItem == 0, IdleCap: 2 * time.Hour, MaxSteps: 20000, KeepTrace: keep}, func(s *simrt.Sim) {
		var w par.Work
		// items are ints, except that one of them may be the untyped nil (a valid map key)
		key := func(i int) any {
			if p.NilItem == i+1 {
				return nil
			}
			return i
		}
		siblingDone := true
		if p.Sibling > 0 {
			var w0 par.Work
			for i := 0; i < 3; i++ {
				w0.Add(9000 + i)
			}
			w0.Do(2, func(item any) { simrt.Yield("f0") })
			siblingDone = false
			s.Go("sibling-work", 0, func() {
				defer func() { siblingDone = true }()
				var ws par.Work
				for i := 0; i < p.Sibling; i++ {
					ws.Add(5000 + i)
				}
				ws.Do(2, func(item any) {
					k, ok := item.(int)
					if !ok || k < 5000 || k >= 5000+p.Sibling {
						out.Violate("foreign-item", "the second Work's f was handed %v, which was added to another Work", item)
						return
					}
					siblingCalls[k]++
					simrt.Yield("fs")
				})
				for i := 0; i < p.Sibling; i++ {
					if siblingCalls[5000+i] != 1 {
						out.Violate("double-run", "the second Work ran its item %d %d times", 5000+i, siblingCalls[5000+i])
					}
				}
			})
		}
		for _, i := range p.Initial {
			w.Add(key(i))
		}
		adderDone := len(p.External) == 0
		if !adderDone {
			s.Go("adder", 0, func() {
				defer func() { adderDone = true }()
				for _, i := range p.External {
					simrt.Yield("adder")
					w.Add(key(i))
				}
			})
		}
		w.Do(p.Workers, func(item any) {
			i := p.NilItem - 1
			if item != nil {
				i = item.(int)
			}
			if i >= 5000 {
				out.Violate("foreign-item", "f was handed item %d, which was added to another Work", i)
				return
			}
			if returned {
				out.Violate("call-after-return", "f(%d) called after Do returned", i)
			}
			started[i] = true
			calls[i]++
			if calls[i] > 1 {
				out.Violate("double-run", "item %d passed to f %d times", i, calls[i])
			}
			if !want[i] {
				out.Violate("foreign-item", "item %d was never added", i)
			}
			if tk := s.TaskOf(); tk != nil {
				runners[tk.ID] = true
			}
			inflight++
			if inflight > maxInflight {
				maxInflight = inflight
			}
			if inflight > p.Workers {
				out.Violate("over-parallel", "%d calls of f in progress with n=%d", inflight, p.Workers)
			}
			if len(p.External) > 0 && i == p.Initial[0] && !adderDone {
				// keeps the run going until the other goroutine has added everything it wants to add
				simrt.Block("f.wait-for-adder", func() bool { return adderDone })
			}
			for k := 0; k < p.Before[i]; k++ {
				simrt.Yield("f.before")
			}
			for _, c := range p.Children[i] {
				w.Add(key(c))
			}
			if p.SlowItem == i+1 {
				time.Sleep(time.Duration(p.SlowMs) * time.Millisecond)
				simrt.Yield("f.woke")
				slept++
			}
			if c, ok := waits[i]; ok && !started[c] {
				rendezvous++
				simrt.Block("f.rendezvous", func() bool { return started[c] })
			}
			for k := 0; k < p.After[i]; k++ {
				simrt.Yield("f.after")
			}
			inflight--
		})
		// Do has returned: everything must be finished.
		returned = true
		if inflight != 0 {
			out.Violate("premature-return", "Do returned with %d calls of f still in progress", inflight)
		}
		var missing []int
		for _, i := range keys(want) {
			if calls[i] == 0 {
				missing = append(missing, i)
			}
		}
		if len(missing) > 0 {
			out.Violate("premature-return", "Do returned but items %v were added and never processed", missing)
		}
		simrt.Block("join-sibling", func() bool { return siblingDone })
	})
	out.TraceHash, out.Steps, out.SimTime, out.Trace = rep.TraceHash, rep.Steps, rep.SimTime, rep.Trace
	simcheck.Panics(out, rep.Panics)
	if rep.Deadlock {
		out.Violate("deadlock", "no task can run: %s", rep.DescribeBlocked())
	}
	if rep.StepCap {
		out.Violate("no-termination", "Do did not finish within %d scheduler decisions: %s", rep.Steps, rep.DescribeBlocked())
	}
	if rep.BubbleErr != "" && out.Violation == nil {
		out.Inconclusive = "bubble: " + rep.BubbleErr
	}
	out.Nontrivial = len(runners) >= 2
	out.Count("mutex_lock", simsync.Stats.MutexLock)
	out.Count("cond_wait", simsync.Stats.CondWait)
	out.Count("cond_signal", simsync.Stats.CondSignal)
	out.Count("cond_broadcast", simsync.Stats.CondBroadcast)
	out.Count("rand_draws", simrand.Draws)
	out.Count("tasks_spawned", int64(rep.Tasks-1))
	out.Count("context_switches", int64(rep.Switches))
	if maxInflight >= 2 {
		out.Count("probe_two_calls_overlapped", 1)
	}
	if maxInflight == p.Workers && p.Workers >= 2 {
		out.Count("probe_all_workers_busy", 1)
	}
	out.Count("probe_rendezvous_waits", int64(rendezvous))
	out.Count("probe_slow_call_of_f", int64(slept))
	if len(p.Initial) == 0 {
		out.Count("probe_empty_initial_set", 1)
	}
	out.Count("policy_"+p.Sched.Policy, 1)
	return out
}

var harness = &simcheck.Harness{
	Property: "C09",
	Level:    "exploration",
	Rule: "rapid draws a worker count (1-4, rarely 64-300), an item graph (children lists with duplicates, self loops and cycles; a quarter of the plans are wide: 1-2 workers, 12-40 items, long initial backlog, fan-out up to 24; a tenth are bursts: 66-140 items queued at one time, before Do or by the first call of f, then drained; one item may be the untyped nil; one call of f may take 1 ms to 61 s of simulated time; another goroutine may add items while Do runs; an eighth of the plans use up another Work first and run a second Work beside the main one), the initial adds, " +
		"yield counts inside f, rendezvous points (a call of f waits until a child it added has started; at most n-1 items may wait), and a schedule (pct with change points / uniform random / sticky); a case is non-trivial when at least two " +
		"different runner tasks executed f, and distinct by the hash of its full decision trace (task, seam) sequence",
	Gen:     genPlan,
	NewPlan: func() any { return &Plan{} },
	Run:     run,
	Components: map[string]string{
		"par.Work (par/work.go)":        "real code from /repo's working tree, recompiled with substituted imports",
		"sync.Mutex, sync.Cond":         "stub: implemented by the scheduler (verif/sim/sync)",
		"math/rand.Intn":                "stub: drawn from the schedule PRNG",
		"goroutine scheduling":          "real goroutines released one at a time by the seeded scheduler inside a synctest bubble",
		"user function f / item graphs": "generated workload",
	},
	Assumptions: []string{
		"sequentially consistent interleavings at seam granularity (each Mutex/Cond operation, task start, and yields inside f)",
		"sync.Cond has no spurious wake-ups (as documented)",
	},
	RequiredCounters: []string{"mutex_lock", "rand_draws"},
}

func TestSim(t *testing.T) { simcheck.Main(t, harness) }

var _ = fmt.Sprintf
