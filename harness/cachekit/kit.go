// Package cachekit holds what the cache harnesses (C05, C11, C12, C13) share:
// the per-worker cache directory, deterministic contents, raw-disk helpers that
// deliberately bypass both the cache code and the simulation shims, and the
// documented on-disk layout (computed here independently of the cache code).
package cachekit

import (
	"crypto/sha256"
	"fmt"
	"io"
	"os"
	"path/filepath"

	"github.com/rogpeppe/go-internal/cache"
)

// Dir returns the worker's private cache directory with its 256-subdirectory
// skeleton (created once per worker; wiped between runs by Wipe).
func Dir() string {
	base := os.Getenv("VERIF_WORKDIR")
	if base == "" {
		var err error
		base, err = os.MkdirTemp("", "verif-cache-")
		if err != nil {
			panic(err)
		}
		os.Setenv("VERIF_WORKDIR", base)
	}
	d := filepath.Join(base, "cache")
	if _, err := os.Stat(filepath.Join(d, "ff")); err != nil {
		if err := os.MkdirAll(d, 0o777); err != nil {
			panic(err)
		}
		for i := 0; i < 256; i++ {
			os.MkdirAll(filepath.Join(d, fmt.Sprintf("%02x", i)), 0o777)
		}
	}
	return d
}

// Wipe removes everything below the skeleton.
func Wipe(dir string) {
	ents, _ := os.ReadDir(dir)
	for _, e := range ents {
		p := filepath.Join(dir, e.Name())
		if e.IsDir() && len(e.Name()) == 2 {
			sub, _ := os.ReadDir(p)
			for _, s := range sub {
				os.RemoveAll(filepath.Join(p, s.Name()))
			}
			continue
		}
		os.RemoveAll(p)
	}
}

// ActionID returns the i-th action id of the small id space.
func ActionID(i int) cache.ActionID {
	var id cache.ActionID
	for k := range id {
		id[k] = byte(0x10*(i+1) + k)
	}
	return id
}

// Content returns deterministic bytes of the given size derived from seed.
func Content(seed, size int) []byte {
	b := make([]byte, size)
	x := uint64(seed)*0x9e3779b97f4a7c15 + 0x1234567
	for i := range b {
		x ^= x << 13
		x ^= x >> 7
		x ^= x << 17
		b[i] = byte(x >> 24)
	}
	// large contents carry long runs of zero bytes (sparse-file style optimisations must not
	// leave stale bytes behind them)
	if size >= 9000 {
		for i := size / 5; i < size/5+2*4096+100 && i < size-1; i++ {
			b[i] = 0
		}
	}
	return b
}

func OutputID(data []byte) cache.OutputID { return cache.OutputID(sha256.Sum256(data)) }

// IndexPath / DataPath: the documented layout <dir>/<first byte hex>/<hex>-a|-d.
func IndexPath(dir string, id cache.ActionID) string {
	return filepath.Join(dir, fmt.Sprintf("%02x", id[0]), fmt.Sprintf("%x", id[:])+"-a")
}

func DataPath(dir string, out cache.OutputID) string {
	return filepath.Join(dir, fmt.Sprintf("%02x", out[0]), fmt.Sprintf("%x", out[:])+"-d")
}

// EntryText renders a well-formed index entry.
func EntryText(id cache.ActionID, out cache.OutputID, size int64, nanos int64) string {
	return fmt.Sprintf("v1 %x %x %20d %20d\n", id[:], out[:], size, nanos)
}

// ChunkReader is an io.ReadSeeker over a byte slice that returns at most Chunk
// bytes per Read and can be told to misbehave.
type ChunkReader struct {
	Data  []byte
	Chunk int
	pos   int
	// fault injection (C12)
	Pass        int // number of Seek(0,0) calls seen: pass 1 = hashing, pass 2 = copying
	Calls       int // Read calls seen
	FailSeekAt  int // fail the n-th Seek (1-based; 0 = never)
	Seeks       int
	FailReadAt  int // fail the n-th Read call (1-based; 0 = never), after delivering FailAfter bytes of it
	FailAfter   int
	EOFAtPass   int // in this pass (1 or 2) report EOF EOFShort bytes early
	EOFShort    int
	FlipAtPass  int  // in this pass, flip the byte at offset FlipOff
	FlipOnward  bool // ... and in every later pass too (the source has changed for good)
	FlipOff     int
	ExtraPass   int // in this pass, deliver ExtraBytes more bytes after the data
	ExtraBytes  int
	EOFWithData bool // return (n>0, io.EOF) on the last chunk
	Fired       map[string]int
	extraLeft   int
}

func (r *ChunkReader) fire(k string) {
	if r.Fired == nil {
		r.Fired = map[string]int{}
	}
	r.Fired[k]++
}

func (r *ChunkReader) Seek(off int64, whence int) (int64, error) {
	r.Seeks++
	if r.FailSeekAt > 0 && r.Seeks == r.FailSeekAt {
		r.fire("reader-seek-error")
		return 0, fmt.Errorf("injected seek error")
	}
	if whence == io.SeekEnd && off == 0 {
		// asking for the size: answered from the underlying data, not a new pass
		return int64(len(r.Data)), nil
	}
	if whence == io.SeekCurrent && off == 0 {
		return int64(r.pos), nil
	}
	if whence != io.SeekStart || off != 0 {
		return 0, fmt.Errorf("ChunkReader: unsupported Seek(%d, %d)", off, whence)
	}
	r.pos = 0
	r.Pass++
	r.extraLeft = 0
	if r.ExtraPass == r.Pass {
		r.extraLeft = r.ExtraBytes
	}
	return 0, nil
}

// Len reports the unread length, as bytes.Reader and strings.Reader do.
func (r *ChunkReader) Len() int {
	if r.pos >= len(r.Data) {
		return 0
	}
	return len(r.Data) - r.pos
}

// Size reports the length of the underlying data, as bytes.Reader, strings.Reader and
// io.SectionReader do: code that trusts such a method instead of what it read is exposed by
// the same-length changes of the source (C12-w11-m1).
func (r *ChunkReader) Size() int64 { return int64(len(r.Data)) }

func (r *ChunkReader) Read(p []byte) (int, error) {
	r.Calls++
	if r.Pass == 0 {
		r.Pass = 1
	}
	end := len(r.Data)
	if r.EOFAtPass == r.Pass {
		end -= r.EOFShort
		if end < 0 {
			end = 0
		}
	}
	limit := len(p)
	if r.Chunk > 0 && limit > r.Chunk {
		limit = r.Chunk
	}
	if r.FailReadAt > 0 && r.Calls == r.FailReadAt {
		n := r.FailAfter
		if n > limit {
			n = limit
		}
		if n > end-r.pos {
			n = end - r.pos
		}
		if n < 0 {
			n = 0
		}
		copy(p, r.Data[r.pos:r.pos+n])
		r.pos += n
		r.fire("reader-read-error")
		return n, fmt.Errorf("injected read error")
	}
	if r.pos >= end {
		if r.extraLeft > 0 {
			n := limit
			if n > r.extraLeft {
				n = r.extraLeft
			}
			for i := 0; i < n; i++ {
				p[i] = 'X'
			}
			r.extraLeft -= n
			r.fire("reader-longer-pass")
			return n, nil
		}
		if r.EOFAtPass == r.Pass && r.EOFShort > 0 {
			r.fire("reader-early-eof")
		}
		return 0, io.EOF
	}
	n := limit
	if n > end-r.pos {
		n = end - r.pos
	}
	copy(p, r.Data[r.pos:r.pos+n])
	if (r.FlipAtPass == r.Pass || r.FlipOnward && r.FlipAtPass > 0 && r.Pass > r.FlipAtPass) && r.FlipOff >= r.pos && r.FlipOff < r.pos+n {
		p[r.FlipOff-r.pos] ^= 0x55
		r.fire("reader-different-bytes")
	}
	r.pos += n
	if r.EOFWithData && r.pos >= end && r.extraLeft == 0 {
		return n, io.EOF
	}
	return n, nil
}

// Snapshot reads every file below dir (relative path -> contents).
func Snapshot(dir string) map[string][]byte {
	m := map[string][]byte{}
	filepath.Walk(dir, func(p string, fi os.FileInfo, err error) error {
		if err == nil && !fi.IsDir() {
			b, _ := os.ReadFile(p)
			rel, _ := filepath.Rel(dir, p)
			m[rel] = b
		}
		return nil
	})
	return m
}

// Restore makes the files below dir equal to the snapshot again.
func Restore(dir string, snap map[string][]byte) {
	cur := Snapshot(dir)
	for rel := range cur {
		if _, ok := snap[rel]; !ok {
			os.Remove(filepath.Join(dir, rel))
		}
	}
	for rel, b := range snap {
		if c, ok := cur[rel]; !ok || string(c) != string(b) {
			os.WriteFile(filepath.Join(dir, rel), b, 0o666)
		}
	}
}
