// Package c20 decides C20: goproxytest serves exactly the modules stored in its
// directory, and the same under any number of concurrent requests. The module
// tree is generated; client tasks deliver requests straight to the server's
// handler (stub transport); every sync.Map / atomic / Mutex operation of the
// two once-caches and every file read of archive loading is a scheduler
// decision; answers are compared with a table computed from the generated
// description alone.
package c20

import (
	"archive/zip"
	"bytes"
	"context"
	"fmt"
	"io"
	"log"
	"net/http"
	"net/http/httptest"
	"os"
	"path/filepath"
	"sort"
	"strings"
	"testing"
	"time"

	"github.com/rogpeppe/go-internal/goproxytest"
	"pgregory.net/rapid"

	simatomic "verif/sim/atomic"
	simcheck "verif/sim/check"
	"verif/sim/gen"
	simnet "verif/sim/net"
	simos "verif/sim/os"
	simrt "verif/sim/rt"
	simsync "verif/sim/sync"
	simtime "verif/sim/time"
)

func init() { log.SetOutput(io.Discard) }

var paths = []string{"example.com/a", "example.com/Mixed/Case", "example.com/b/v2", "rsc.io/q", "example.com/b"} // the last one is the parent module of the third
var versions = []string{"v1.0.0", "v1.2.3", "v1.3.0-beta.1", "v0.0.0-20200101120000-abcdef123456", "v2.0.0+incompatible", "v2.1.0", "v1.0.0-RC1", "v0.1.0",
	// the other two pseudo-version forms, one of them marked +incompatible
	"v1.2.4-0.20200101120000-abcdef123456", "v2.0.1-0.20190101000000-0123456789ab+incompatible", "v1.3.0-beta.1.0.20200101120000-abcdef123456",
	"v3.0.0+incompatible"}

const pseudo = "v0.0.0-20200101120000-abcdef123456"

var fileNames = []string{"go.mod", "x.go", "pkg/y.go", "pkg/sub/z.go", ".hidden", "pkg/.golden/out.txt", ".dot/inner.txt", "README", "pkg/.keep"}

type FileSpec struct {
	Name int  `json:"name"`
	Body int  `json:"body"`
	NoNL bool `json:"no_nl,omitempty"` // directory layout only: no final newline
	Big  bool `json:"big,omitempty"`   // about 70 KB of incompressible text (a zip larger than one copy buffer)
}

type ModVer struct {
	Path      int        `json:"path"`
	Ver       int        `json:"ver"`
	Layout    string     `json:"layout"` // txt txtar dir
	Files     []FileSpec `json:"files"`
	EmptyMod  bool       `json:"empty_mod,omitempty"`  // the stored .mod file is empty
	EmptyInfo bool       `json:"empty_info,omitempty"` // the stored .info file is empty
	Many      int        `json:"many,omitempty"`       // directory layout only: this many further small files gen/fNNN.go
}

type Req struct {
	Kind string `json:"kind"` // list info mod zip raw
	Path int    `json:"path,omitempty"`
	Ver  int    `json:"ver,omitempty"`
	Raw  string `json:"raw,omitempty"`
	Near int    `json:"near,omitempty"` // >0: a spelling close to the version (shortened, padded, with build metadata ...) that is not stored
	// Hash: the version is named by (a prefix or an extension of) the commit hash of the stored pseudo-version;
	// the statement says nothing about such requests, so their responses are not asserted when the module path
	// has stored versions - they are there to disturb the requests that are.
	Hash string `json:"hash,omitempty"`
	Gone bool   `json:"gone,omitempty"` // fault: the client has given up (request context cancelled) when the handler runs; response not asserted
	// slow client: simulated seconds that pass while the request headers travel, and per write of the response
	HeaderDelay int `json:"header_delay,omitempty"`
	Stall       int `json:"stall,omitempty"`
}

// nearMiss derives version spellings that are not what is stored.
func nearMiss(ver string, k int) string {
	core := ver
	if i := strings.IndexAny(core, "-+"); i >= 0 {
		core = core[:i]
	}
	parts := strings.Split(core, ".") // vMAJOR MINOR PATCH
	switch k {
	case 1:
		return parts[0] // v1
	case 2:
		return parts[0] + "." + parts[1] // v1.0
	case 3:
		return ver + ".0"
	case 4:
		return parts[0] + ".0" + parts[1] + "." + parts[2] // leading zero
	case 5:
		return ver + "+meta"
	case 6:
		return "latest"
	case 7:
		return strings.TrimPrefix(ver, "v") + "x"
	}
	return ver + "-"
}

type Plan struct {
	// Other is the directory of an earlier Server of the same process (started, asked for everything it
	// stores, closed before the server under examination starts); it disagrees with Mods on purpose.
	Other   []ModVer    `json:"other,omitempty"`
	Mods    []ModVer    `json:"mods"`
	Clients [][]Req     `json:"clients"`
	Sched   simrt.Sched `json:"sched"`
	// SlowDisk: every read of a file under the served directory takes this many simulated seconds (a cold or
	// networked disk, a loaded machine)
	SlowDisk int `json:"slow_disk,omitempty"`
}

var rawURLs = []string{"/other/x", "/mod/example.com/a", "/mod/example.com/a/@v/v1.0.0", "/mod/example.com/a/@v/v1.0.0.foo",
	"/mod/Example.com/a/@v/list", "/mod/example.com/a/@v/", "/mod/example.com/a/@v/V1.0.0.info", "/mod/",
	// URLs that are not in cleaned form name nothing that is stored
	"/mod", "/mod//example.com/a/@v/list", "/mod/example.com/a/../a/@v/v1.0.0.info", "/mod/./example.com/a/@v/v1.0.0.mod", "/mod/example.com//a/@v/v1.0.0.zip", "/x/../mod/example.com/a/@v/list"}

func genPlan(t *rapid.T, tier string) any {
	p := &Plan{}
	nm := rapid.IntRange(1, 5).Draw(t, "nmods")
	seen := map[[2]int]bool{}
	if rapid.IntRange(0, 7).Draw(t, "nested") == 0 {
		// a module and its /v2 sub-module side by side, the parent with versions on either side of the sub-module's
		for _, pv := range [][2]int{{4, 0}, {2, 5}, {4, len(versions) - 1}} {
			seen[pv] = true
			p.Mods = append(p.Mods, ModVer{Path: pv[0], Ver: pv[1], Layout: rapid.SampledFrom([]string{"txt", "txtar", "dir"}).Draw(t, "nlayout")})
		}
	}
	for i := 0; i < nm; i++ {
		m := ModVer{Path: rapid.IntRange(0, len(paths)-1).Draw(t, "path"), Ver: rapid.IntRange(0, len(versions)-1).Draw(t, "ver")}
		if seen[[2]int{m.Path, m.Ver}] {
			continue
		}
		seen[[2]int{m.Path, m.Ver}] = true
		m.Layout = rapid.SampledFrom([]string{"txt", "txtar", "dir"}).Draw(t, "layout")
		m.EmptyMod = rapid.IntRange(0, 7).Draw(t, "emptymod") == 0
		m.EmptyInfo = rapid.IntRange(0, 11).Draw(t, "emptyinfo") == 0
		nf := rapid.IntRange(0, 5).Draw(t, "nfiles")
		used := map[int]bool{}
		for k := 0; k < nf; k++ {
			f := FileSpec{Name: rapid.IntRange(0, len(fileNames)-1).Draw(t, "fname"), Body: rapid.IntRange(0, 5).Draw(t, "body")}
			if used[f.Name] {
				continue
			}
			used[f.Name] = true
			if m.Layout == "dir" {
				f.NoNL = rapid.IntRange(0, 3).Draw(t, "nonl") == 0
			}
			f.Big = rapid.IntRange(0, 9).Draw(t, "big") == 0
			m.Files = append(m.Files, f)
		}
		if m.Layout == "dir" && rapid.IntRange(0, 5).Draw(t, "many") == 0 {
			m.Many = rapid.IntRange(60, 75).Draw(t, "nmany")
		}
		p.Mods = append(p.Mods, m)
	}
	if rapid.IntRange(0, 7).Draw(t, "slowdisk") == 0 {
		p.SlowDisk = rapid.SampledFrom([]int{1, 2, 5, 20}).Draw(t, "slowdisksecs")
	}
	if rapid.IntRange(0, 3).Draw(t, "other") == 0 {
		for _, m := range p.Mods {
			if rapid.Bool().Draw(t, "othersame") {
				o := m
				o.Files = nil
				for _, f := range m.Files {
					o.Files = append(o.Files, FileSpec{Name: f.Name, Body: (f.Body + 1) % 6})
				}
				o.Layout = rapid.SampledFrom([]string{"txt", "txtar", "dir"}).Draw(t, "otherlayout")
				p.Other = append(p.Other, o)
			}
		}
		if rapid.Bool().Draw(t, "otherextra") {
			o := ModVer{Path: rapid.IntRange(0, len(paths)-1).Draw(t, "opath"), Ver: rapid.IntRange(0, len(versions)-1).Draw(t, "over"), Layout: "txt",
				Files: []FileSpec{{Name: 1, Body: 2}}}
			dup := false
			for _, m := range p.Other {
				dup = dup || (m.Path == o.Path && m.Ver == o.Ver)
			}
			if !dup {
				p.Other = append(p.Other, o)
			}
		}
	}
	genReq := func() Req {
		r := Req{}
		// most requests aim at something stored
		if len(p.Mods) > 0 && rapid.IntRange(0, 4).Draw(t, "stored") != 0 {
			m := p.Mods[rapid.IntRange(0, len(p.Mods)-1).Draw(t, "which")]
			r.Path, r.Ver = m.Path, m.Ver
		} else {
			r.Path, r.Ver = rapid.IntRange(0, len(paths)-1).Draw(t, "rpath"), rapid.IntRange(0, len(versions)-1).Draw(t, "rver")
		}
		if rapid.IntRange(0, 5).Draw(t, "near") == 0 {
			r.Near = rapid.IntRange(1, 8).Draw(t, "nearkind")
		}
		if r.Near == 0 && isPseudo(versions[r.Ver]) && rapid.IntRange(0, 2).Draw(t, "byhash") == 0 {
			r.Hash = rapid.SampledFrom([]string{"abcdef123456", "abcdef12", "abcdef1234567890"}).Draw(t, "hash")
		} else if r.Near == 0 && len(p.Mods) > 0 && rapid.IntRange(0, 9).Draw(t, "byshort") == 0 {
			// the commit hash recorded in the .info of some stored version - asked of this or of another module path
			m := p.Mods[rapid.IntRange(0, len(p.Mods)-1).Draw(t, "shortof")]
			r.Hash = shortOf(m)
			if rapid.Bool().Draw(t, "shortelsewhere") {
				r.Path = rapid.IntRange(0, len(paths)-1).Draw(t, "shortpath")
			} else {
				r.Path = m.Path
			}
		}
		if rapid.IntRange(0, 14).Draw(t, "touch") == 0 {
			// not a request: somebody drops an unrelated file into the served directory
			return Req{Kind: "touch"}
		}
		switch rapid.IntRange(0, 11).Draw(t, "clientfault") {
		case 0:
			r.Gone = true
		case 1:
			r.Stall = rapid.SampledFrom([]int{1, 4, 6, 30, 120}).Draw(t, "stall")
		case 2:
			r.HeaderDelay = rapid.SampledFrom([]int{1, 4, 6, 30, 120}).Draw(t, "hdelay")
		}
		switch k := rapid.IntRange(0, 9).Draw(t, "rkind"); {
		case k <= 1:
			r.Kind = "list"
		case k <= 3:
			r.Kind = "info"
		case k <= 5:
			r.Kind = "mod"
		case k <= 8:
			r.Kind = "zip"
		default:
			r.Kind = "raw"
			r.Raw = rapid.SampledFrom(rawURLs).Draw(t, "raw")
		}
		return r
	}
	nc := rapid.IntRange(2, 5).Draw(t, "clients")
	first := genReq()
	for c := 0; c < nc; c++ {
		var rs []Req
		// several clients deliberately share their first request
		if rapid.IntRange(0, 2).Draw(t, "sharefirst") != 0 {
			rs = append(rs, first)
		}
		n := rapid.IntRange(1, 4).Draw(t, "nreq")
		for k := 0; k < n; k++ {
			rs = append(rs, genReq())
		}
		p.Clients = append(p.Clients, rs)
	}
	if rapid.IntRange(0, 5).Draw(t, "storm") == 0 {
		// one client probes many module paths that do not exist (as cmd/go does when it resolves
		// every prefix of an import path), then asks for something that may be stored
		var rs []Req
		n := rapid.IntRange(10, 24).Draw(t, "stormsize")
		for k := 0; k < n; k++ {
			ext := rapid.SampledFrom([]string{"info", "mod", "zip"}).Draw(t, "stormext")
			rs = append(rs, Req{Kind: "raw", Raw: fmt.Sprintf("/mod/example.com/a/sub%d/@v/v1.0.0.%s", k, ext)})
		}
		rs = append(rs, genReq(), genReq())
		p.Clients = append(p.Clients, rs)
	}
	p.Sched = gen.Sched(t, 300)
	return p
}

// escape implements the module escaping rule ("!" + lower case for upper case).
func escape(s string) string {
	var b strings.Builder
	for _, r := range s {
		if r >= 'A' && r <= 'Z' {
			b.WriteByte('!')
			b.WriteRune(r + 'a' - 'A')
		} else {
			b.WriteRune(r)
		}
	}
	return b.String()
}

func body(m ModVer, f FileSpec) []byte {
	s := fmt.Sprintf("// %s@%s %s\npackage p%d\n", paths[m.Path], versions[m.Ver], fileNames[f.Name], f.Body)
	for i := 0; i < f.Body; i++ {
		s += fmt.Sprintf("var v%d = %d // -- not a marker\n", i, i*f.Body)
	}
	if f.Body == 5 {
		s = "" // an empty file
	}
	if f.Big {
		var b strings.Builder
		b.WriteString(s)
		x := uint64(f.Name*7+f.Body)*0x9e3779b97f4a7c15 + 12345
		for b.Len() < 70000 {
			x ^= x << 13
			x ^= x >> 7
			x ^= x << 17
			fmt.Fprintf(&b, "// %016x\n", x)
		}
		s = b.String()
	}
	if f.NoNL && len(s) > 0 {
		s = s[:len(s)-1]
	}
	return []byte(s)
}

func shortOf(m ModVer) string {
	if m.EmptyInfo {
		return ""
	}
	return fmt.Sprintf("%x", 0xabc000+m.Path*16+m.Ver)
}

func infoOf(m ModVer) []byte {
	if m.EmptyInfo {
		return nil
	}
	return []byte(fmt.Sprintf("{\"Version\":%q,\"Time\":\"2020-01-01T00:00:00Z\",\"Short\":\"%s\"}\n", versions[m.Ver], shortOf(m)))
}
func modOf(m ModVer) []byte {
	if m.EmptyMod {
		return nil
	}
	return []byte("module " + paths[m.Path] + "\n\ngo 1.20\n")
}

// isPseudo: the three pseudo-version forms of the Go modules reference (vX.0.0-yyyymmddhhmmss-rev,
// vX.Y.Z-pre.0.yyyymmddhhmmss-rev, vX.Y.(Z+1)-0.yyyymmddhhmmss-rev), each possibly with +metadata.
func isPseudo(ver string) bool {
	if i := strings.Index(ver, "+"); i >= 0 {
		ver = ver[:i]
	}
	j := strings.LastIndex(ver, "-")
	if j < 0 || strings.Count(ver, "-") < 2 || j+1 >= len(ver) {
		return false
	}
	head := ver[:j] // ...yyyymmddhhmmss
	if len(head) < 15 {
		return false
	}
	ts := head[len(head)-14:]
	for _, c := range ts {
		if c < '0' || c > '9' {
			return false
		}
	}
	before := head[:len(head)-14]
	core := ver[1:strings.Index(ver, "-")]
	return strings.HasSuffix(before, ".0.") || strings.HasSuffix(before, "-0.") || (strings.HasSuffix(before, "-") && strings.HasSuffix(core, ".0.0"))
}

// listed applies Go's rule for which versions of a path are valid and not pseudo-versions.
func listed(path, ver string) bool {
	if isPseudo(ver) {
		return false
	}
	// Go's rule (x/mod module.Check): a path with a /vN suffix takes versions of major N;
	// a path without one takes v0, v1, or anything marked +incompatible.
	major := ver[1:strings.Index(ver, ".")]
	if strings.HasSuffix(path, "/v2") {
		return major == "2"
	}
	return major == "0" || major == "1" || strings.HasSuffix(ver, "+incompatible")
}

type expect struct {
	code  int
	body  []byte            // info / mod
	zip   map[string]string // zip: name -> content
	lines []string          // list
}

func run(t *testing.T, plan any, keep bool) *simcheck.Outcome {
	p := plan.(*Plan)
	out := &simcheck.Outcome{}
	base := os.Getenv("VERIF_WORKDIR")
	if base == "" {
		base = os.TempDir()
	}
	dir := filepath.Join(base, "c20")
	os.RemoveAll(dir)
	os.MkdirAll(dir, 0o777)
	simos.Reset()
	simtime.Reset()
	simnet.Reset()
	simsync.ResetStats()
	simatomic.Ops = 0
	simos.SetReadChunk(256)
	simos.SetClassifier(func(p string) string { return "mod" })
	defer simos.SetClassifier(simos.DefaultClass)

	layout(dir, p.Mods)
	other := filepath.Join(base, "c20-other")
	os.RemoveAll(other)
	if len(p.Other) > 0 {
		os.MkdirAll(other, 0o777)
		layout(other, p.Other)
	}
	find := func(path, ver int) *ModVer {
		for i := range p.Mods {
			if p.Mods[i].Path == path && p.Mods[i].Ver == ver {
				return &p.Mods[i]
			}
		}
		return nil
	}
	return runWith(t, p, out, dir, other, keep, find)
}

// layout writes the modules to disk (raw OS: this is the input, not the system under test).
func manyName(k int) string { return fmt.Sprintf("gen/f%03d.go", k) }
func manyBody(m ModVer, k int) []byte {
	return []byte(fmt.Sprintf("package gen // file %d of %s@%s\n", k, paths[m.Path], versions[m.Ver]))
}

func layout(dir string, mods []ModVer) {
	for _, m := range mods {
		name := strings.ReplaceAll(escape(paths[m.Path]), "/", "_") + "_" + escape(versions[m.Ver])
		type ent struct {
			name string
			data []byte
		}
		ents := []ent{{".info", infoOf(m)}, {".mod", modOf(m)}}
		for _, f := range m.Files {
			ents = append(ents, ent{fileNames[f.Name], body(m, f)})
		}
		if m.Layout == "dir" {
			for k := 0; k < m.Many; k++ {
				ents = append(ents, ent{manyName(k), manyBody(m, k)})
			}
			for _, e := range ents {
				fp := filepath.Join(dir, name, filepath.FromSlash(e.name))
				os.MkdirAll(filepath.Dir(fp), 0o777)
				os.WriteFile(fp, e.data, 0o666)
			}
			continue
		}
		var b bytes.Buffer
		b.WriteString("a comment before the first file\n")
		for _, e := range ents {
			fmt.Fprintf(&b, "-- %s --\n", e.name)
			b.Write(e.data)
		}
		os.WriteFile(filepath.Join(dir, name+"."+m.Layout), b.Bytes(), 0o666)
	}
	// some unrelated entries in the directory
	os.WriteFile(filepath.Join(dir, "README"), []byte("not a module\n"), 0o666)
	os.WriteFile(filepath.Join(dir, "noversion.txt"), []byte("-- .mod --\nmodule x\n"), 0o666)
}

func runWith(t *testing.T, p *Plan, out *simcheck.Outcome, dir, other string, keep bool, find func(path, ver int) *ModVer) *simcheck.Outcome {
	want := func(r Req) (string, expect) {
		if r.Kind == "raw" {
			return r.Raw, expect{code: 404}
		}
		url := "/mod/" + escape(paths[r.Path]) + "/@v/"
		if r.Kind == "list" {
			var lines []string
			for _, m := range p.Mods {
				if m.Path == r.Path && listed(paths[m.Path], versions[m.Ver]) {
					lines = append(lines, versions[m.Ver])
				}
			}
			sort.Strings(lines)
			if len(lines) == 0 {
				return url + "list", expect{code: 404}
			}
			return url + "list", expect{code: 200, lines: lines}
		}
		vers := versions[r.Ver]
		if r.Near > 0 {
			vers = nearMiss(vers, r.Near)
		}
		if r.Hash != "" {
			url += r.Hash + "." + r.Kind
			// a commit hash names a stored version of this module path if it is a prefix of (or extends) the hash
			// in that version's pseudo-version suffix or .info file; what is served then is not asserted, but a
			// hash that names no stored version of this path is "not stored"
			for _, m := range p.Mods {
				if m.Path != r.Path {
					continue
				}
				hs := []string{shortOf(m)}
				if v := versions[m.Ver]; isPseudo(v) {
					if i := strings.Index(v, "+"); i >= 0 {
						v = v[:i]
					}
					hs = append(hs, v[strings.LastIndex(v, "-")+1:])
				}
				for _, h := range hs {
					// (a stored version whose .info records no hash at all may be taken for any commit: not asserted either)
					if h == "" || strings.HasPrefix(h, r.Hash) || strings.HasPrefix(r.Hash, h) {
						return url, expect{code: -1} // not asserted
					}
				}
			}
			return url, expect{code: 404}
		}
		url += escape(vers) + "." + r.Kind
		m := find(r.Path, r.Ver)
		if r.Near > 0 {
			m = nil
			for i := range p.Mods {
				if p.Mods[i].Path == r.Path && versions[p.Mods[i].Ver] == vers {
					m = &p.Mods[i]
				}
			}
		}
		if m == nil {
			return url, expect{code: 404}
		}
		switch r.Kind {
		case "info":
			return url, expect{code: 200, body: infoOf(*m)}
		case "mod":
			return url, expect{code: 200, body: modOf(*m)}
		}
		z := map[string]string{}
		for _, f := range m.Files {
			if strings.HasPrefix(fileNames[f.Name], ".") {
				continue
			}
			z[paths[m.Path]+"@"+versions[m.Ver]+"/"+fileNames[f.Name]] = string(body(*m, f))
		}
		if m.Layout == "dir" {
			for k := 0; k < m.Many; k++ {
				z[paths[m.Path]+"@"+versions[m.Ver]+"/"+manyName(k)] = string(manyBody(*m, k))
			}
		}
		return url, expect{code: 200, zip: z}
	}

	requests, sharedFirst, gone, slow, unasserted, otherReqs, touches := 0, 0, 0, 0, 0, 0, 0
	slowReads := 0
	rep := simrt.Run(t, simrt.Options{Sched: p.Sched, Strict: true, MaxSteps: 200000, KeepTrace: keep}, func(s *simrt.Sim) {
		if len(p.Other) > 0 {
			// an earlier server of this process, over another directory: servers are independent of each other
			srv0, err := goproxytest.NewServer(other, "")
			if err != nil {
				out.Violate("server-start", "NewServer on a well-formed directory failed: %v", err)
				return
			}
			hp0 := strings.TrimSuffix(strings.TrimPrefix(srv0.URL, "http://"), "/mod")
			simrt.Block("client.connect", func() bool { return simnet.Lookup(hp0) != nil })
			h0 := simnet.Lookup(hp0)
			for _, m := range p.Other {
				for _, ext := range []string{"info", "mod", "zip"} {
					u := "/mod/" + escape(paths[m.Path]) + "/@v/" + escape(versions[m.Ver]) + "." + ext
					h0.ServeHTTP(httptest.NewRecorder(), httptest.NewRequest("GET", "http://"+hp0+u, nil))
					otherReqs++
				}
			}
			srv0.Close()
		}
		if p.SlowDisk > 0 {
			simos.OnOp(func(proc int, op, class, path string) {
				if op == "read" && strings.HasPrefix(path, dir) {
					slowReads++
					time.Sleep(time.Duration(p.SlowDisk) * time.Second)
				}
			})
			defer simos.OnOp(nil)
		}
		srv, err := goproxytest.NewServer(dir, "")
		if err != nil {
			out.Violate("server-start", "NewServer on a well-formed directory failed: %v", err)
			return
		}
		hostport := strings.TrimSuffix(strings.TrimPrefix(srv.URL, "http://"), "/mod")
		remaining := len(p.Clients)
		for ci, reqs := range p.Clients {
			ci, reqs := ci, reqs
			s.Go(fmt.Sprintf("client%d", ci), 0, func() {
				defer func() { remaining-- }()
				for ri, r := range reqs {
					if r.Kind == "touch" {
						touches++
						os.WriteFile(filepath.Join(dir, fmt.Sprintf("NOTES-%d-%d.md", ci, ri)), []byte("not a module either\n"), 0o666)
						continue
					}
					url, exp := want(r)
					h := simnet.Lookup(hostport)
					if h == nil {
						// the server goroutine has not reached Serve yet: a real client would
						// get connection refused and retry; wait for the listener
						simrt.Block("client.connect", func() bool { return simnet.Lookup(hostport) != nil })
						h = simnet.Lookup(hostport)
					}
					rec := httptest.NewRecorder()
					req := httptest.NewRequest("GET", "http://"+hostport+url, nil)
					tag := fmt.Sprintf("client %d request %d GET %s", ci, ri, url)
					requests++
					if r.Gone {
						ctx, cancel := context.WithCancel(req.Context())
						cancel()
						h.ServeHTTP(rec, req.WithContext(ctx))
						gone++
						continue
					}
					// a slow client against the server's configured limits (net/http semantics)
					hdrLimit, writeLimit := simnet.LookupServer(hostport).Timeouts()
					if r.HeaderDelay > 0 {
						simtime.Advance(time.Duration(r.HeaderDelay) * time.Second)
						slow++
						if hdrLimit > 0 && time.Duration(r.HeaderDelay)*time.Second > hdrLimit {
							out.Violate("no-response", "%s: the request headers took %ds to arrive and the server dropped the connection (header read limit %v): no response", tag, r.HeaderDelay, hdrLimit)
							return
						}
					}
					var w http.ResponseWriter = rec
					sw := &slowWriter{ResponseWriter: rec, stall: time.Duration(r.Stall) * time.Second, limit: writeLimit, start: simtime.Now()}
					if r.Stall > 0 {
						slow++
					}
					w = sw
					h.ServeHTTP(w, req)
					got := rec.Body.Bytes()
					if sw.cut {
						out.Violate("truncated-response", "%s: the server stopped writing %v after the request arrived (write limit %v): %d bytes of the response were delivered", tag, sw.elapsed, writeLimit, len(got))
						return
					}
					if exp.code < 0 {
						unasserted++
						continue
					}
					if rec.Code != exp.code {
						out.Violate("wrong-status", "%s: status %d, want %d (body %q)", tag, rec.Code, exp.code, trunc(got))
						return
					}
					switch {
					case exp.code != 200:
					case exp.lines != nil:
						lines := strings.Split(strings.TrimSuffix(string(got), "\n"), "\n")
						sort.Strings(lines)
						if strings.Join(lines, ",") != strings.Join(exp.lines, ",") {
							out.Violate("wrong-list", "%s: versions %v, want %v", tag, lines, exp.lines)
							return
						}
					case exp.zip != nil:
						zr, err := zip.NewReader(bytes.NewReader(got), int64(len(got)))
						if err != nil {
							out.Violate("bad-zip", "%s: response is not a valid zip: %v", tag, err)
							return
						}
						have := map[string]string{}
						for _, zf := range zr.File {
							rc, err := zf.Open()
							if err != nil {
								out.Violate("bad-zip", "%s: %s: %v", tag, zf.Name, err)
								return
							}
							b, _ := io.ReadAll(rc)
							rc.Close()
							if _, dup := have[zf.Name]; dup {
								out.Violate("wrong-zip", "%s: file %s appears twice", tag, zf.Name)
								return
							}
							have[zf.Name] = string(b)
						}
						if d := diffMaps(exp.zip, have); d != "" {
							out.Violate("wrong-zip", "%s: %s", tag, d)
							return
						}
					default:
						if !bytes.Equal(got, exp.body) {
							out.Violate("wrong-body", "%s: body %q, want %q", tag, trunc(got), trunc(exp.body))
							return
						}
					}
				}
			})
		}
		simrt.Block("join", func() bool { return remaining == 0 })
		srv.Close()
	})
	for _, c := range p.Clients {
		if len(c) > 0 && len(p.Clients[0]) > 0 && c[0] == p.Clients[0][0] {
			sharedFirst++
		}
	}
	out.TraceHash, out.Steps, out.SimTime, out.Trace = rep.TraceHash, rep.Steps, rep.SimTime, rep.Trace
	simcheck.Panics(out, rep.Panics)
	if rep.Deadlock {
		out.Violate("deadlock", "no task can run: %s", rep.DescribeBlocked())
	}
	if rep.StepCap {
		out.Inconclusive = "step cap: " + rep.DescribeBlocked()
	}
	out.Nontrivial = rep.Switches > len(p.Clients)+3
	out.SimSeconds = simtime.Offset().Seconds()
	out.Count("requests", int64(requests))
	out.Count("requests_to_an_earlier_server_of_the_process", int64(otherReqs))
	out.Count("unrelated_files_dropped_into_the_directory", int64(touches))
	out.Count("fault_client_gave_up", int64(gone))
	out.Count("fault_slow_client", int64(slow))
	out.Count("fault_slow_disk_reads", int64(slowReads))
	out.Count("requests_by_commit_hash_unasserted", int64(unasserted))
	out.Count("clients_sharing_first_request", int64(sharedFirst))
	out.Count("listens", simnet.Listens)
	out.Count("mutex_lock", simsync.Stats.MutexLock)
	out.Count("map_ops", simsync.Stats.MapOps)
	out.Count("atomic_ops", simatomic.Ops)
	ops, _ := simos.Counters()
	out.Count("file_opens", ops["open"])
	out.Count("file_reads", ops["read"])
	out.Count("context_switches", int64(rep.Switches))
	for _, m := range p.Mods {
		out.Count("layout_"+m.Layout, 1)
	}
	return out
}

// slowWriter is the response path to a slow client: the first write of the response
// takes the client's stall (simulated seconds, counted per request, not on a clock shared
// with other requests), and once more than the server's write limit has passed since the
// request arrived the connection is dead, as with http.Server.WriteTimeout.
type slowWriter struct {
	http.ResponseWriter
	stall, limit, elapsed time.Duration
	start                 time.Time
	stalled, cut          bool
}

func (w *slowWriter) Write(b []byte) (int, error) {
	// the handler can be descheduled at every write to the connection
	simrt.Yield("net.write")
	if w.stall > 0 && !w.stalled {
		w.stalled = true
		w.elapsed += w.stall
		simtime.Advance(w.stall)
	}
	if w.cut || w.limit > 0 && w.elapsed > w.limit {
		w.cut = true
		return 0, os.ErrDeadlineExceeded
	}
	return w.ResponseWriter.Write(b)
}

func trunc(b []byte) string {
	if len(b) > 120 {
		return string(b[:120]) + "..."
	}
	return string(b)
}

func diffMaps(want, have map[string]string) string {
	var ks []string
	for k := range want {
		ks = append(ks, k)
	}
	for k := range have {
		if _, ok := want[k]; !ok {
			ks = append(ks, k)
		}
	}
	sort.Strings(ks)
	for _, k := range ks {
		w, okw := want[k]
		h, okh := have[k]
		switch {
		case !okh:
			return fmt.Sprintf("stored file %s is missing from the zip", k)
		case !okw:
			return fmt.Sprintf("zip contains %s which is not a stored non-dot file", k)
		case w != h:
			return fmt.Sprintf("zip member %s has %d bytes, stored file has %d and differs", k, len(h), len(w))
		}
	}
	return ""
}

var harness = &simcheck.Harness{
	Property: "C20",
	Level:    "exploration",
	Rule: "rapid draws a module directory (1-5 module versions over 4 paths incl. upper-case and /v2, 11 versions incl. pre-release, the three pseudo-version forms, +incompatible, upper-case and invalid-for-path ones; " +
		".txt, .txtar or directory layout; .info, .mod, nested files, top-level and nested dot files, empty files, now and then a 70 KB file, files without final newline, directory modules with 60-75 further small files; an eighth of the plans store a module beside its /v2 sub-module with versions of the parent on either side; an eighth read the served directory from a disk that takes 1-20 simulated seconds per read), optionally an earlier Server of the same process over a directory that disagrees with this one (asked for everything it stores, then closed), then 2-5 client tasks with 1-5 requests each " +
		"(list / .info / .mod / .zip of stored and absent versions, near-miss spellings of stored versions such as v1, v1.0, v1.0.0+meta, malformed URLs, unrelated files dropped into the served directory between requests, a storm of 10-24 requests for distinct module paths that do not exist, requests by commit hash (the pseudo-version's, or the one recorded in a stored version's .info, asked of that or of another module path: 404 when it names no stored version of the path, otherwise unasserted), and client faults: a client that has given up before the handler runs (cancelled context, unasserted), slow clients whose headers or response writes take 1-120 simulated seconds against whatever time limits the server was configured with; two thirds of the clients share their first request) and a schedule; " +
		"non-trivial = more context switches than clients+3; distinct by decision-trace hash",
	Gen:     genPlan,
	NewPlan: func() any { return &Plan{} },
	Run:     run,
	Components: map[string]string{
		"goproxytest, par":                "real code from /repo's working tree, recompiled with substituted imports (os, sync, sync/atomic, net, net/http.Server)",
		"golang.org/x/tools/txtar":        "real, unmodified (files under the module cache cannot be overlaid, so ParseFile's single read is not a seam; directory-layout reads are)",
		"TCP listener and HTTP transport": "stub: requests are delivered straight to the server's handler (reliable, in-order, like loopback HTTP)",
		"module directory":                "generated, written with the raw OS before the server starts",
		"goroutine scheduling":            "seeded scheduler",
	},
	Assumptions: []string{
		"no fault kind applies (loopback HTTP is reliable and the statement has no failure clause): none is injected",
		"commit-hash (all-hex) version queries are not generated: the statement does not describe their resolution",
		"module paths avoid '_' (the directory naming scheme cannot represent it)",
	},
	RequiredCounters: []string{"requests", "listens", "mutex_lock", "map_ops", "atomic_ops", "file_opens"},
}

func TestSim(t *testing.T) { simcheck.Main(t, harness) }
