#!/usr/bin/env python3
# Regenerates MANIFEST.json from the table below (kept in one place so that the
# claimed / not-applicable split always covers all 20 properties).
import json, sys
claimed = {
 "C09": dict(cat="exploration", ref="3 (C09), 2.2",
   text="Seeded schedule search: the real par.Work code runs on real goroutines that a deterministic scheduler releases one seam at a time (every Mutex/Cond operation, goroutine start, and yields inside f); oracle = exactly-once / <=n in progress / Do returns only at quiescence with the whole reachable item set processed / no deadlock, no step-cap. Sampling of interleavings and item graphs, not enumeration.",
   note="Trusted: the scheduler and the simulated sync.Mutex/sync.Cond (verif/sim/sync) faithfully model Go's (no spurious wake-ups, Signal wakes an arbitrary waiter); sequential consistency at seam granularity.",
   tech="deterministic simulation: seeded scheduler over substituted sync/math-rand, counting oracle + deadlock detection"),
 "C10": dict(cat="exploration", ref="3 (C10), 2.2",
   text="Seeded schedule search over the real par.Cache code: every sync.Map / atomic / Mutex operation of 2-5 client goroutines is a scheduler decision; oracle = f invoked once per key, every Do returns that invocation's value and only after it completed, Get never waits on a mutex and returns nil or that value (and the value once some Do returned). Sampling, not enumeration.",
   note="Sequentially consistent interleavings only: the hardware/compiler memory-model half of 'safe publication' is not observable and not claimed. Trusted: scheduler, simulated Mutex, yield-wrapped sync.Map and atomics.",
   tech="deterministic simulation: seeded scheduler over substituted sync/atomic, counting + ordering oracle"),
 "C05": dict(cat="exploration", ref="3 (C05)",
   text="Seeded histories (Put/PutBytes/Get/GetBytes/GetFile/OutputFile) over a small id space with damage at rest injected between operations (truncate, extend, flip, delete, replace, 23 kinds of nearly valid index entries), checked step by step against a reference map: undamaged entries read back exactly; whatever the disk state, GetBytes is not-found or hash-valid, GetFile not-found or size-valid, nothing panics; a Put of the same content repairs a damaged output.",
   note="Single task, no I/O faults (C11/C12 cover those). Any lookup error counts as not-found. File system is the real kernel's in a private directory.",
   tech="deterministic simulation: seeded operation/damage histories against a reference map (fault = damage at rest)"),
 "C13": dict(cat="exploration", ref="3 (C13)",
   text="Seeded histories on a simulated clock (time.Now in cache and all file mtimes are simulated): Put, lookups, clock advances biased to the 24h / 5d / 5d+1h thresholds with jitter, backward clock jumps, Trim, trim-record rewrites (recent/old/future/garbage/empty/missing), foreign files, directly aged files, and model-guided macro steps that place a Trim just before/after a threshold of a chosen entry. Reference retention model: entries used within 5d survive byte-identical; foreign files untouched; nothing removed and record unchanged when a trim completed <24h ago; when due, everything unused for >5d+1h is gone and the record holds the trim time.",
   note="Get counts as a use of the index file only (its doc says so); future-dated trim records are don't-care for the due/not-due clauses; whole-second clock.",
   tech="deterministic simulation: simulated clock and mtimes, seeded histories against a reference retention model"),
 "C12": dict(cat="fault_enumeration", ref="3 (C12)",
   text="Fault injection at every file-operation boundary inside Put: a fault-free dry run lists the N operations (and M source-reader calls) of the target Put for a seeded scenario shape (prior entries, overwrite/new/shared output, pre-damaged or trimmed-away output), then operation k fails / writes short then fails / the process halts before, after or in the middle of it, or the reader fails, ends early, changes or grows between passes. After a restart: GetBytes not-found or hash-valid, GetFile size-valid and (undamaged start) content-valid, entries of other ids readable before stay readable, an acknowledged Put reads back, a fault-free retry succeeds. Thorough executes the whole (operation x action) space of a tenth of the shapes to completion and adds a concurrent reader process; shapes are sampled.",
   note="Process-crash model (halt at an operation boundary or mid-write), no power-loss/lost-write model; single fault per attempt; real SIGKILLs replaced by seed-determined halts.",
   tech="deterministic simulation with fault injection: per-operation error/short-write/halt and faulty source readers, restart, invariant check"),
 "C11": dict(cat="exploration", ref="3 (C11)",
   text="Seeded schedule search over the file operations of 2-3 simulated processes x 1-2 goroutines doing Put/GetBytes/GetFile on one directory (identical and differing contents per id, a sequential prefix, hot-id bias), page-granular torn reads/writes, random/sticky/pct/preemption-bounded schedules. Oracle over the recorded history: every successful lookup returns hash- and size-valid bytes that some Put stored for that id; a lookup overlapped only by Puts of the content the id stably holds must hit and return it; files named by GetFile keep their bytes for a slow consumer; after quiescence every stored id is readable. Sampling, not enumeration.",
   note="Sub-page single read/write calls are atomic in the model; no faults here (C12). Processes are task groups with private *Cache and descriptors in one OS process; the kernel file system is real.",
   tech="deterministic simulation: seeded scheduler over intercepted file operations of several simulated processes, history oracle"),
 "C06": dict(cat="exploration", ref="3 (C06)",
   text="Seeded schedule search over every open/flock/unlock/close/content operation of up to 6 goroutines in 1-3 simulated processes using every lockedfile entry point (all OpenFile flag combinations, Open, Create, Edit, Mutex, Read, Write, Transform) on regular and FIFO lock files, with EINTR storms, ENOLCK, failing truncate and failing close injected. Oracles: behavioural holder table (a writer never coexists with anyone), kernel-side truth (the returned descriptor holds the prescribed flock mode from return until Close is called and not after), content operations only under the right lock, failed opens leave no descriptor, no deadlock / bounded progress.",
   note="The kernel's real flock (LOCK_NB) is the arbiter; flock conflicts are per open file description, so simulated processes = task groups with private descriptors. Workload never nests locks.",
   tech="deterministic simulation with fault injection: seeded scheduler over intercepted open/flock/close, real kernel flock, holder-table + kernel-side lock-table invariants"),
 "C07": dict(cat="exploration", ref="3 (C07), 6 (F2)",
   text="Seeded schedule search over Read/Write/Transform calls of up to 6 goroutines in 1-3 simulated processes on one file (self-checking values of 0..70000 bytes, chunked writes, page-granular torn transfers), histories of at most 24 operations stamped with the simulator's global event sequence and checked with porcupine against a register model (stale reads, lost updates, real-time order), plus a torn-value detector on every Read and on the bytes Transform hands to its function. Fault scenario: one Transform in its own process has its k-th file operation fail or write short then fail (or its function fails) for longer / shorter / same-length results; a Transform that returned an error must be a no-op in the model. Known finding F2 (empty read of a file that was absent) is reported as KNOWN-FINDING, every other violation exits 1.",
   note="Single fault per run for the rollback clause (double faults only assert no panic / no deadlock). Faults are injected only into Transform. porcupine Unknown (timeout) is counted, never reported as pass or fail.",
   tech="deterministic simulation with fault injection: seeded scheduler over intercepted file/flock operations, porcupine linearizability check of the recorded history, torn-value detector"),
 "C20": dict(cat="exploration", ref="3 (C20)",
   text="Seeded schedule search over concurrent client requests to a goproxytest server on a generated module directory (escaped upper-case paths, /v2, release / pre-release / pseudo / +incompatible / invalid-for-path versions; .txt, .txtar and directory layouts; nested, dot and empty files), every sync.Map / atomic / Mutex operation of the two once-caches and every directory-layout file read being a scheduler decision. Every response (status, .info/.mod bytes, decoded .zip member set, list lines, 404 for absent versions, near-miss spellings and malformed URLs) is compared with a table computed from the generated description alone; all concurrent answers must equal it.",
   note="TCP/HTTP transport is a stub (direct handler delivery); x/tools/txtar.ParseFile is unmodified (module cache cannot be overlaid). No faults (the statement has no failure clause). All-hex commit-hash queries are not generated.",
   tech="deterministic simulation: seeded scheduler over substituted sync/atomic/os and a stub HTTP transport, reference response table"),
 "C17": dict(cat="exploration", ref="3 (C17)",
   text="Unmodified testscript code (RunT, script loop, exec, waitOrStop, context and grace computation) runs 1-3 scripts inside a synctest bubble: fake clock, stub child processes whose exit instants are placed around the interrupt and kill instants (+-1ns..30ms) and whose reaction to SIGQUIT is default / ignore / exit after a delay below, around or above the grace period, a recording T with an optional -parallel limit, seeded schedules. Oracle from the stub's signal log and the T: a foreground command still running at the interrupt instant is interrupted then; if it outlives one grace period it is killed exactly then, with interrupt->kill == kill->deadline; the script is reported failed with the timed-out message and no later line runs; subtests that started before the interrupt end by the deadline; no child is left alive or unreaped; scripts that were over before the machinery fired equal their no-deadline twin run (verdict and log).",
   note="Children and signals are stubs; the grace period is never hard-coded (only relations). Exact ties between exits and timers are not generated. Background processes that ignore interrupts are outside the statement.",
   tech="deterministic simulation: synctest fake clock + stub processes with seeded exit instants and signal reactions, timing relations read from the signal log"),
 "C04": dict(cat="exploration", ref="3 (C04), 6 (F10)",
   text="Differential schedule search: a batch of 2-4 generated scripts that all use the same relative names (files, directories, variables, background processes, [exec:tool] guards with per-script PATHs, stop / skip / failing lines, deferred calls; unique or colliding script file names; TestWork / WorkdirRoot / RequireUniqueNames / failing Setup / host GORACE / -parallel limit) runs under one RunT with every file, environment, atomic and once-cache operation of the parallel subtests as a scheduler decision; then each script runs alone and must give the same verdict, log, probe records (cwd, variables, tree listing with content hashes), deferred-call order and final tree. Direct invariants: the tree at Setup is exactly the archive, the environment is exactly the documented variables (+GORACE pass-through) with host variables invisible to env, expansion and child processes, deferred functions ran on every exit path in reverse order, no child alive or unreaped when its subtest ends, work directories removed or retained as requested and the private GOTMPDIR empty afterwards, distinct subtest names, no hang.",
   note="Children are stubs. Runs as root, so read-only directories do not hinder removal. The pty (ttyin) path does real terminal I/O and is not generated. Process-global program names are made unique per plan and phase.",
   tech="deterministic simulation: seeded scheduler over intercepted file/env/atomic operations of parallel scripts, solo-vs-batch equivalence + end-of-run invariants"),
 "C01": dict(cat="exploration", ref="3 (C01), 6 (F11)",
   text="SCOPED to the engine around commands (the part of the statement whose truth depends on other parties and their timing): generated scripts over guards ([cond]/[!cond] with a custom Condition), !, exec foreground / background / named, wait [name], kill, stdout / stderr with -count, cmp stdout|stderr file, stdin, exists, stop, skip, unknown and custom commands, phase comments, with and without ContinueOnError, run against stub child processes with seeded exit code, output and run time under several process-latency assignments and schedule seeds; verdict (pass/fail/skip), first offending line named in the log, and the set of lines that had effects must equal those of a ~200-line reference evaluator written from doc.go, for every timing; no child is left behind.",
   note="NOT decided here (pure input->output semantics, no schedule/clock/fault): the file-manipulating built-ins (cd chmod cmpenv cp grep mkdir mv rm symlink unquote unix2dos, cmp on files), regular-expression semantics, RequireExplicitExec/Main registration, the cmd/testscript binary's exit status. Lines whose meaning is timing dependent or undocumented in the current state are dropped at rendering.",
   tech="deterministic simulation: stub child processes with seeded latencies on a fake clock, reference evaluator, verdict invariance under timing"),
}
na = {
 "C02": "pure function of the line text and the assignment history: no schedule, clock, fault or second party for a simulator to own",
 "C03": "txtar Parse/Format are pure functions of a byte string; nothing to schedule, delay, crash or fail",
 "C08": "diff.Diff is a pure function of two byte strings",
 "C14": "NeedsQuote/Quote/Unquote are pure functions of a byte string",
 "C15": "a function of the archive and the pre-existing tree; single-threaded, and the statement has no concurrency, failure or crash clause",
 "C16": "a function of the script archive and produced outputs; each script rewrites only its own file, nothing shared, timed or fallible in the statement",
 "C18": "ReadImports is a function of the input bytes; the statement says nothing about reader errors or chunking",
 "C19": "ShouldBuild/MatchFile are pure functions of content, file name and tag set",
}
pending = {  # claimed by DESIGN.md, check not built yet: listed as not applicable *yet* with that reason
}
for pid in ["C01","C04","C05","C06","C07","C10","C11","C12","C13","C17","C20"]:
    if pid not in claimed:
        pending[pid] = "check not built yet (planned in DESIGN.md section 3); not claimed until its harness exists"
checks=[]
for pid,c in sorted(claimed.items()):
    checks.append(dict(property_id=pid,
      quick_cmd=f"./check {pid} --tier quick",
      thorough_cmd=f"./check {pid} --tier thorough",
      evidence_file=f"/verif/evidence/{pid}.json",
      replay_cmd_template=f"./check {pid} --replay {{path}}",
      engine="simrt",
      level_claimed=dict(category=c["cat"], text=c["text"], design_ref=c["ref"]),
      level_note=c["note"], technique=c["tech"]))
m = dict(version=1,
  setup_cmd="cd /verif && export GOFLAGS=-mod=mod GOPROXY=off GOSUMDB=off GOTOOLCHAIN=local CGO_ENABLED=0 && mkdir -p bin && /opt/veriftools/go1.26.8/bin/go build -o bin/vcheck ./cmd/vcheck && /opt/veriftools/go1.26.8/bin/go test -count=1 ./sim/... ./internal/...",
  hooks=dict(guard="verif", enable="none needed: checks build /repo's working tree with `go test -overlay` (import substitution generated at check time by verif/internal/rewrite); no hook code lives in /repo",
             baseline_off_cmd="cd /repo && go build ./... && go test -vet=off -count=1 ./...", source_commits=[], add_only=True),
  engines=[dict(name="simrt", path="/verif/sim", serves_properties=sorted(claimed), kind_free_text="deterministic simulation: seeded scheduler (testing/synctest bubble + parked tasks), simulated sync/atomic/rand/os/flock/exec/net shims substituted at build time, rapid-generated plans with shrinking, JSON replay files")],
  checks=checks,
  not_applicable=[dict(property_id=k, reason=v) for k,v in sorted({**na, **pending}.items())],
  notes="See DESIGN.md. Exit codes: 0 held, 1 violation (VIOLATION line with replay file), 2 inconclusive (build/watchdog/seam/determinism trouble; never a violation).")
json.dump(m, open("/verif/MANIFEST.json","w"), indent=1)
print("claimed", sorted(claimed), "na", sorted({**na, **pending}))
