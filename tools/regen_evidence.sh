#!/bin/sh
# tools/regen_evidence.sh: rewrite every evidence file from a quick run on the current (clean) tree.
cd /verif || exit 2
[ -n "$(git -C /repo status --short)" ] && { echo "/repo is not clean"; exit 2; }
rc=0
for id in $(python3 -c "import json;print(' '.join(c['property_id'] for c in json.load(open('MANIFEST.json'))['checks']))"); do
  VERIF_SEED=${VERIF_SEED:-1} ./check $id --tier quick | grep "^summary\|^VIOL\|^INCON\|^KNOWN" | cut -c1-220 || rc=1
done
exit $rc
