#!/usr/bin/env python3
# tools/adopt.py <property> <mK> <pkgdir> "<what it breaks>" "<what it needs>" "<detected: class / tier / time or MISSED>"
import sys, os, json, shutil
pid, m, pkg, breaks, needs, detected = sys.argv[1:7]
src=f"/tmp/mut/{pid}/"+os.environ.get("OUT","out")
d=f"/verif/seeded/{pid}-"+os.environ.get("TAG","")+m
os.makedirs(d, exist_ok=True)
shutil.copy(f"{src}/{m}.diff", f"{d}/patch.diff")
shutil.copy(f"{src}/{m}_demo_test.go", f"{d}/demo_test.go.txt")
if os.path.exists(f"{src}/{m}.md"): shutil.copy(f"{src}/{m}.md", f"{d}/notes.md")
meta=dict(property=pid, id=f"{pid}-{m}", breaks=breaks, needs_to_manifest=needs,
  demo=f"demo_test.go.txt: copy as {pkg}/zz_demo_test.go into a worktree of /repo and run go test -run <its Test name> ./{pkg}/",
  confirmed=[f"tools/confirm_seeded.sh {pid} {m} {pkg} ...: demo passes on the clean tree, fails with the change; go build ./... and the existing tests of the touched packages pass with the change",
             f"tools/seeded.sh {pid} seeded/{pid}-{m}/patch.diff: applied to /repo, check run, reverted"],
  detection=detected, origin="written by an independent sub-agent that saw only the property text and a scratch worktree")
json.dump(meta, open(f"{d}/meta.json","w"), indent=1)
print("adopted", d)
