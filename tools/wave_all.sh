#!/bin/sh
# tools/wave_all.sh <outdir-name> [budget]: for every property's mutants in /tmp/mut/<id>/<outdir-name>:
# confirm the demonstration, run the property's own check, and - when that is silent - the
# checks of the neighbouring properties of the same area. One result line per mutant.
out=$1; budget=${2:-20}
area() {
  case $1 in
    C05|C11|C12|C13) echo "cache ./cache/... ./lockedfile/... : C05 C11 C12 C13" ;;
    C06|C07) echo "lockedfile ./lockedfile/... : C06 C07 C13" ;;
    C09) echo "par ./par/... : C09 C20" ;;
    C10) echo "par ./par/... ./goproxytest/... : C10 C20" ;;
    C20) echo "goproxytest ./goproxytest/... ./par/... : C20 C10" ;;
    C01|C04|C17) echo "testscript ./testscript/... : C01 C04 C17" ;;
  esac
}
for pid in ${PIDS:-C01 C04 C05 C06 C07 C09 C10 C11 C12 C13 C17 C20}; do
  set -- $(area $pid)
  pkg=$1; shift
  tests=""; while [ "$1" != ":" ]; do tests="$tests $1"; shift; done; shift
  sibs="$*"
  for m in m1 m2 m3; do
    d=/tmp/mut/$pid/$out/$m.diff
    [ -f "$d" ] || { echo "$pid $m NO-DIFF"; continue; }
    # the demo goes into the package its package clause and the diff suggest
    dpkg=$pkg
    first=$(grep -m1 '^+++ b/' "$d" | sed 's#^+++ b/##; s#/[^/]*$##')
    grep -q "^package $(basename "$first")" /tmp/mut/$pid/$out/${m}_demo_test.go 2>/dev/null && dpkg=$first
    conf=$(OUT=$out /verif/tools/confirm_seeded.sh $pid $m $dpkg $tests 2>&1 | grep "^ok\|^FAIL\|PATCH\|^== " | tr '\n' ' ')
    okc=$(echo "$conf" | grep -c "clean tree.* ok .*with change FAIL.*existing tests with change ok")
    res=""
    for c in $pid $sibs; do
      [ "$c" = "$pid" ] && [ -n "$res" ] && continue
      r=$(WORKERS=${WORKERS:-16} /verif/tools/seeded.sh $c "$d" $budget 2>&1 | grep "violation class=\|INCONCLUSIVE\|PATCH" | sed 's/^ *//' | tr '\n' ';' | cut -c1-160)
      if [ -n "$r" ]; then res="$res $c:[$r]"; [ "$c" = "$pid" ] && break; else res="$res $c:silent"; fi
      case "$r" in *violation*) break ;; esac
    done
    echo "$pid $m confirmed=$okc $res"
    [ "$okc" = 1 ] || echo "   confirm: $conf" | cut -c1-400
  done
done
