#!/bin/sh
# tools/regress_seeded.sh [budget-s] [workers]: run every seeded change under seeded/ against its property's
# check, on a scratch copy of /repo (VERIF_REPO), and print one line per change. /repo is not touched.
budget=${1:-20}; workers=${2:-16}
cd "$(dirname "$0")/.." || exit 2
scratch=$(mktemp -d /dev/shm/verif-regress-XXXXXX) || exit 2
trap 'rm -rf "$scratch"' EXIT INT TERM
for d in seeded/*/; do
  id=$(basename $d); prop=${id%%-*}; expect=caught
  # meta.json names the check that catches the change (its own property's, a neighbour's, or none)
  cb=$(jq -r '.caught_by // empty' "$d/meta.json" 2>/dev/null)
  case "$cb" in C[0-9][0-9]) prop=$cb ;; none*) expect=none ;; esac
  rm -rf "$scratch/repo"; mkdir -p "$scratch/repo"
  git -C /repo archive HEAD | tar -x -C "$scratch/repo"
  if ! (cd "$scratch/repo" && patch -p1 -s < "$OLDPWD/$d/patch.diff" >/dev/null 2>&1); then echo "$id PATCH-DOES-NOT-APPLY"; continue; fi
  res=$(VERIF_REPO="$scratch/repo" ./check $prop --budget-s $budget --workers $workers 2>&1 | grep '^violation class=\|^INCONCLUSIVE' | sed 's/violation class=//' | cut -c1-40 | sort | uniq -c | sort -rn | head -2 | tr '\n' ';')
  [ -z "$res" ] && res="MISSED"
  verdict=ok
  case "$expect:$res" in caught:MISSED) verdict=REGRESSION ;; none:MISSED) verdict=ok-documented-miss ;; none:*) verdict=now-caught ;; esac
  echo "$id $prop $res $verdict"
done
git checkout -- evidence 2>/dev/null
