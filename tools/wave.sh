#!/bin/sh
# tools/wave.sh <property> <pkgdir> <budget> <test packages...>: confirm and run every wave-2 mutant of a property
pid=$1; pkg=$2; budget=$3; shift 3
for m in m1 m2 m3; do
  [ -f /tmp/mut/$pid/${WAVE:-out2}/$m.diff ] || continue
  echo "######## $pid wave2 $m"
  p=$pkg
  # a demo may live in another package: take the directory named in the diff if the demo says so
  OUT=${WAVE:-out2} /verif/tools/confirm_seeded.sh $pid $m $p "$@" 2>&1 | grep "^ok\|^FAIL\|PATCH\|^== " | tr '\n' ' '; echo
  WORKERS=16 /verif/tools/seeded.sh $pid /tmp/mut/$pid/${WAVE:-out2}/$m.diff $budget
done
