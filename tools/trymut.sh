#!/bin/sh
# tools/trymut.sh <property> <budget-s> <file-relative-to-/repo> <sed-expression> [more file/sed pairs...]
# Applies a deliberate property-breaking edit to /repo, checks that it still
# builds, runs the quick check, and always reverts /repo afterwards.
id=$1; budget=$2; shift 2
cd /repo || exit 2
trap 'git -C /repo checkout -- . >/dev/null 2>&1' EXIT INT TERM
while [ $# -ge 2 ]; do
  before=$(md5sum "$1")
  sed -i "$2" "$1"
  [ "$before" = "$(md5sum "$1")" ] && { echo "MUTATION DID NOT APPLY: $1 $2"; exit 3; }
  shift 2
done
git diff | grep '^[+-][^+-]' | head -20
go build ./... 2>&1 | head -5 || { echo "MUTANT DOES NOT BUILD"; exit 3; }
cd /verif && ./check "$id" --budget-s "$budget" ${WORKERS:+--workers $WORKERS} | grep -v '^  ' | cut -c1-300 | sort | uniq -c | sort -rn | head -8
