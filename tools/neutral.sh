#!/bin/sh
# tools/neutral.sh <area> <checks...>: run checks against every behaviour-preserving refactoring of an area
# (expected: no violation, no inconclusive result).
area=$1; shift
for r in /tmp/mut/neutral/$area/${NOUT:-out}/r*.diff; do
  [ -f "$r" ] || continue
  scratch=$(mktemp -d /dev/shm/verif-neutral-XXXXXX)
  mkdir -p "$scratch/repo" && git -C /repo archive HEAD | tar -x -C "$scratch/repo"
  if ! (cd "$scratch/repo" && patch -p1 -s < "$r" >/dev/null 2>&1); then echo "$area $(basename $r) PATCH-DOES-NOT-APPLY"; rm -rf "$scratch"; continue; fi
  for c in "$@"; do
    res=$(cd /verif && VERIF_REPO="$scratch/repo" ./check $c --budget-s ${BUDGET:-15} --workers ${WORKERS:-12} 2>&1 | grep '^violation class=\|^INCONCLUSIVE' | cut -c1-160 | sort | uniq -c | head -3 | tr '\n' ';')
    echo "$area $(basename $r) $c ${res:-silent}"
  done
  rm -rf "$scratch"
done
git -C /verif checkout -- evidence/ 2>/dev/null
