#!/bin/sh
# tools/neutral.sh <area> <checks...>: run checks against every behaviour-preserving refactoring of an area
# (expected: no violation, no inconclusive result).
area=$1; shift
# (the diffs are the committed copies under neutral/: <area>-rK.diff for the first round, <area>-w2-rK.diff for the second)
pat="$area-r*.diff"; [ "${NOUT:-out}" = out2 ] && pat="$area-w2-r*.diff"
for r in /verif/neutral/$pat; do
  [ -f "$r" ] || continue
  scratch=$(mktemp -d /dev/shm/verif-neutral-XXXXXX)
  mkdir -p "$scratch/repo" && git -C /repo archive HEAD | tar -x -C "$scratch/repo"
  if ! (cd "$scratch/repo" && patch -p1 -s < "$r" >/dev/null 2>&1); then echo "$area $(basename $r) PATCH-DOES-NOT-APPLY"; rm -rf "$scratch"; continue; fi
  for c in "$@"; do
    res=$(cd /verif && VERIF_REPO="$scratch/repo" ./check $c --budget-s ${BUDGET:-15} --workers ${WORKERS:-12} 2>&1 | grep '^violation class=\|^INCONCLUSIVE' | cut -c1-160 | sort | uniq -c | head -3 | tr '\n' ';')
    echo "$area $(basename $r) $c ${res:-silent}"
  done
  rm -rf "$scratch"
done
git -C /verif checkout -- evidence/ 2>/dev/null
