#!/bin/sh
# tools/confirm_seeded.sh <property> <mK> <pkgdir> [test packages...]
# Confirms a candidate seeded change in the scratch worktree /tmp/mut/<property>/wt:
# demo passes on the clean tree, fails with the change, and the existing tests of the
# given packages pass with the change. Leaves the worktree clean.
pid=$1; m=$2; pkg=$3; shift 3
wt=/tmp/mut/$pid/wt; out=/tmp/mut/$pid/${OUT:-out}
export GOFLAGS=-mod=mod GOPROXY=off GOSUMDB=off
cd $wt || exit 2
git checkout -q -- . && git clean -fdq
cp $out/${m}_demo_test.go $pkg/zz_${m}_demo_test.go
name=$(grep -o '^func Test[A-Za-z0-9_]*' $out/${m}_demo_test.go | sed 's/func //' | paste -sd'|')
echo "== demo on clean tree ($name)"; go test -count=1 -run "^($name)\$" ./$pkg/ 2>&1 | tail -3; clean=$?
git apply $out/$m.diff || { echo "PATCH DOES NOT APPLY"; git checkout -q -- .; git clean -fdq; exit 3; }
echo "== demo with change"; timeout 300 go test -count=1 -run "^($name)\$" ./$pkg/ 2>&1 | tail -5
rm $pkg/zz_${m}_demo_test.go
echo "== build + existing tests with change"; go build ./... && go test -vet=off -count=1 "$@" 2>&1 | tail -6
git checkout -q -- . && git clean -fdq
