#!/bin/sh
# tools/seeded.sh <property-check-to-run> <patch.diff> [budget-s]
# Applies a seeded change to /repo, runs the check, always reverts.
id=$1; patch=$2; budget=${3:-20}
trap 'git -C /repo checkout -- . >/dev/null 2>&1' EXIT INT TERM
git -C /repo apply "$patch" || { echo "PATCH DOES NOT APPLY"; exit 3; }
cd /verif && ./check "$id" --budget-s "$budget" ${WORKERS:+--workers $WORKERS} ${TIER:+--tier $TIER} | grep '^violation class=\|^VIOLATION\|^summary\|^KNOWN\|^INCONCLUSIVE' | cut -c1-300 | sed 's/replay=.*//' | sort | uniq -c | sort -rn | head -8
git -C /verif checkout -- evidence/ 2>/dev/null
