#!/bin/sh
# tools/seeded.sh <property-check-to-run> <patch.diff> [budget-s]
# Runs a check against a seeded change applied to a scratch copy of /repo (VERIF_REPO);
# /repo itself is not touched, so background runs on /repo are not disturbed.
id=$1; patch=$(readlink -f "$2"); budget=${3:-20}
scratch=$(mktemp -d /dev/shm/verif-seeded-XXXXXX) || exit 2
trap 'rm -rf "$scratch"' EXIT INT TERM
mkdir -p "$scratch/repo" && git -C /repo archive HEAD | tar -x -C "$scratch/repo"
(cd "$scratch/repo" && patch -p1 -s < "$patch" >/dev/null 2>&1) || { echo "PATCH DOES NOT APPLY"; exit 3; }
cd /verif && VERIF_REPO="$scratch/repo" ./check "$id" --budget-s "$budget" ${WORKERS:+--workers $WORKERS} ${TIER:+--tier $TIER} | grep '^violation class=\|^VIOLATION\|^summary\|^KNOWN\|^INCONCLUSIVE' | cut -c1-300 | sed 's/replay=.*//' | sort | uniq -c | sort -rn | head -8
git -C /verif checkout -- evidence/ 2>/dev/null
