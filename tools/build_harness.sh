#!/bin/sh
# tools/build_harness.sh <property>: build the harness test binary to /dev/shm/vh-<id>.test (development aid)
id=$1
cd /verif && export GOFLAGS=-mod=mod GOPROXY=off GOSUMDB=off GOTOOLCHAIN=local CGO_ENABLED=0
exec bin/vcheck $id --build-only /dev/shm/vh-$id.test
