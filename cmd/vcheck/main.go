// vcheck is the driver of every check:
//
//	vcheck <property> [--tier quick|thorough] [--replay file] [--workers n] [--budget-s s]
//
// It rewrites the packages the harness needs from /repo's current working tree
// into a scratch overlay, builds the harness test binary against it, runs W
// worker processes (each a seeded search), merges their results into
// /verif/evidence/<id>.json and prints VIOLATION / KNOWN-FINDING / INCONCLUSIVE
// lines. Exit status: 0 held, 1 violation, 2 inconclusive (build, watchdog,
// seam or determinism trouble).
package main

import (
	"encoding/binary"
	"encoding/json"
	"flag"
	"fmt"
	"os"
	"os/exec"
	"path/filepath"
	"sort"
	"strconv"
	"strings"
	"sync"
	"sync/atomic"
	"time"

	"verif/internal/rewrite"
	simcheck "verif/sim/check"
)

const goBin = "/opt/veriftools/go1.26.8/bin/go"

// repoRoot is the tree under test: /repo, unless VERIF_REPO names a scratch copy
// (used to run the checks against seeded changes without touching /repo).
var repoRoot = func() string {
	if r := os.Getenv("VERIF_REPO"); r != "" {
		return r
	}
	return "/repo"
}()

// verifRoot is the directory the driver was started in: /verif for registered
// checks, a snapshot of it for background runs (which then keep their evidence
// and replay files to themselves).
var verifRoot = func() string {
	if wd, err := os.Getwd(); err == nil {
		if _, err := os.Stat(filepath.Join(wd, "cmd", "vcheck")); err == nil {
			return wd
		}
	}
	return "/verif"
}()

type tierCfg struct {
	Workers int
	BudgetS float64
}

type propCfg struct {
	Harness  string
	Specs    []rewrite.PkgSpec
	Quick    tierCfg
	Thorough tierCfg
}

var (
	substSync = map[string]string{"sync": "verif/sim/sync", "sync/atomic": "verif/sim/atomic", "math/rand": "verif/sim/rand", "time": "verif/sim/time"}
)

var (
	substCache = map[string]string{"os": "verif/sim/os", "time": "verif/sim/time", "sync": "verif/sim/sync", "sync/atomic": "verif/sim/atomic"}
	substLF    = map[string]string{"os": "verif/sim/os", "sync": "verif/sim/sync", "syscall": "verif/sim/sys", "time": "verif/sim/time", "runtime": "verif/sim/runtime", "sync/atomic": "verif/sim/atomic"}
)

func cacheSpecs() []rewrite.PkgSpec {
	return []rewrite.PkgSpec{
		{Dir: repo("cache"), Subst: substCache, GoStmts: true},
		{Dir: repo("lockedfile"), Subst: substLF, GoStmts: true},
		{Dir: repo("lockedfile/internal/filelock"), Subst: substLF, GoStmts: true},
	}
}

func proxySpecs() []rewrite.PkgSpec {
	net := map[string]string{"os": "verif/sim/os", "net": "verif/sim/net", "net/http": "verif/sim/net", "sync": "verif/sim/sync", "sync/atomic": "verif/sim/atomic", "time": "verif/sim/time"}
	return []rewrite.PkgSpec{
		{Dir: repo("goproxytest"), Subst: net, GoStmts: true},
		{Dir: repo("par"), Subst: substSync, GoStmts: true},
	}
}

func tsSpecs() []rewrite.PkgSpec {
	ts := map[string]string{"os": "verif/sim/os", "os/exec": "verif/sim/exec", "sync": "verif/sim/sync", "sync/atomic": "verif/sim/atomic", "time": "verif/sim/time"}
	return []rewrite.PkgSpec{
		{Dir: repo("testscript"), Subst: ts, GoStmts: true},
		{Dir: repo("testscript/internal/pty"), Subst: ts},
		{Dir: repo("internal/os/execpath"), Subst: map[string]string{"os": "verif/sim/os"}},
		{Dir: repo("txtar"), Subst: map[string]string{"os": "verif/sim/os"}},
		{Dir: repo("par"), Subst: substSync, GoStmts: true},
	}
}

func lfSpecs() []rewrite.PkgSpec {
	return []rewrite.PkgSpec{
		{Dir: repo("lockedfile"), Subst: substLF, GoStmts: true},
		{Dir: repo("lockedfile/internal/filelock"), Subst: substLF, GoStmts: true},
	}
}

func repo(p string) string { return filepath.Join(repoRoot, p) }

var props = map[string]propCfg{
	"C06": {
		Harness:  "./harness/c06",
		Specs:    lfSpecs(),
		Quick:    tierCfg{16, 20},
		Thorough: tierCfg{16, 600},
	},
	"C07": {
		Harness:  "./harness/c07",
		Specs:    lfSpecs(),
		Quick:    tierCfg{16, 20},
		Thorough: tierCfg{16, 600},
	},
	"C20": {
		Harness:  "./harness/c20",
		Specs:    proxySpecs(),
		Quick:    tierCfg{16, 20},
		Thorough: tierCfg{16, 600},
	},
	"C17": {
		Harness:  "./harness/c17",
		Specs:    tsSpecs(),
		Quick:    tierCfg{16, 20},
		Thorough: tierCfg{16, 600},
	},
	"C01": {
		Harness:  "./harness/c01",
		Specs:    tsSpecs(),
		Quick:    tierCfg{16, 20},
		Thorough: tierCfg{16, 600},
	},
	"C04": {
		Harness:  "./harness/c04",
		Specs:    tsSpecs(),
		Quick:    tierCfg{16, 25},
		Thorough: tierCfg{16, 600},
	},
	"C09": {
		Harness:  "./harness/c09",
		Specs:    []rewrite.PkgSpec{{Dir: repo("par"), Subst: substSync, GoStmts: true}},
		Quick:    tierCfg{16, 15},
		Thorough: tierCfg{16, 600},
	},
	"C05": {
		Harness:  "./harness/c05",
		Specs:    cacheSpecs(),
		Quick:    tierCfg{16, 20},
		Thorough: tierCfg{16, 600},
	},
	"C11": {
		Harness:  "./harness/c11",
		Specs:    cacheSpecs(),
		Quick:    tierCfg{16, 20},
		Thorough: tierCfg{16, 600},
	},
	"C12": {
		Harness:  "./harness/c12",
		Specs:    cacheSpecs(),
		Quick:    tierCfg{16, 20},
		Thorough: tierCfg{16, 600},
	},
	"C13": {
		Harness:  "./harness/c13",
		Specs:    cacheSpecs(),
		Quick:    tierCfg{16, 20},
		Thorough: tierCfg{16, 600},
	},
	"C10": {
		Harness:  "./harness/c10",
		Specs:    []rewrite.PkgSpec{{Dir: repo("par"), Subst: substSync, GoStmts: true}},
		Quick:    tierCfg{16, 15},
		Thorough: tierCfg{16, 600},
	},
}

type knownEntry struct {
	Property string `json:"property"`
	Key      string `json:"key"`
	Status   string `json:"status"` // known | fixed
	Commit   string `json:"commit,omitempty"`
	What     string `json:"what"`
	Replay   string `json:"replay,omitempty"` // committed replay plan for a known finding
}

func goEnv() []string {
	env := os.Environ()
	env = append(env, "GOFLAGS=-mod=mod", "GOPROXY=off", "GOSUMDB=off", "GOTOOLCHAIN=local", "CGO_ENABLED=0")
	return env
}

func inconclusive(id, format string, args ...any) {
	fmt.Printf("INCONCLUSIVE property=%s %s\n", id, fmt.Sprintf(format, args...))
}

func main() {
	os.Exit(realMain())
}

func realMain() int {
	if len(os.Args) < 2 {
		fmt.Fprintln(os.Stderr, "usage: vcheck <property> [--tier quick|thorough] [--replay file]")
		return 2
	}
	id := os.Args[1]
	fs := flag.NewFlagSet("vcheck", flag.ExitOnError)
	tier := fs.String("tier", os.Getenv("VERIF_TIER"), "quick or thorough")
	replay := fs.String("replay", "", "replay file to re-execute")
	workers := fs.Int("workers", 0, "override worker count")
	budget := fs.Float64("budget-s", 0, "override per-worker search budget in seconds")
	maxRuns := fs.Int64("max-runs", 0, "stop each worker after this many plans (determinism self-tests)")
	resultDir := fs.String("keep-results", "", "copy raw worker results here")
	buildOnly := fs.String("build-only", "", "development aid: build the harness binary to this path and stop")
	selftest := fs.Int64("selftest", 0, "determinism self-test: run this many plans per worker twice at GOMAXPROCS 1, 4 and 16 and compare per-plan trace hashes")
	fs.Parse(os.Args[2:])
	if *tier == "" {
		*tier = "quick"
	}
	cfg, ok := props[id]
	if !ok {
		fmt.Fprintf(os.Stderr, "unknown property %q\n", id)
		return 2
	}
	var seed uint64
	if v := os.Getenv("VERIF_SEED"); v != "" {
		n, err := strconv.ParseInt(v, 10, 64)
		if err != nil {
			u, err2 := strconv.ParseUint(v, 10, 64)
			if err2 != nil {
				fmt.Fprintf(os.Stderr, "bad VERIF_SEED %q\n", v)
				return 2
			}
			seed = u
		} else {
			seed = uint64(n)
		}
	} else {
		seed = uint64(time.Now().UnixNano()) & (1<<53 - 1)
	}
	fmt.Printf("vcheck property=%s tier=%s VERIF_SEED=%d\n", id, *tier, seed)
	start := time.Now()

	base := "/dev/shm"
	if st, err := os.Stat(base); err != nil || !st.IsDir() {
		base = os.TempDir()
	}
	scratch, err := os.MkdirTemp(base, "verif-"+id+"-")
	if err != nil {
		scratch, err = os.MkdirTemp("", "verif-"+id+"-")
		if err != nil {
			inconclusive(id, "scratch: %v", err)
			return 2
		}
	}
	defer os.RemoveAll(scratch)

	ovDir := filepath.Join(scratch, "overlay")
	os.MkdirAll(ovDir, 0o755)
	ov, st, err := rewrite.Overlay(cfg.Specs, verifRoot, ovDir)
	if err != nil {
		inconclusive(id, "rewrite: %v", err)
		return 2
	}
	bin := filepath.Join(scratch, "harness.test")
	buildArgs := []string{"test", "-c", "-overlay", ov, "-vet=off", "-o", bin}
	if repoRoot != "/repo" {
		// same module file, but the replace directive points at the scratch copy
		mod, err := os.ReadFile(filepath.Join(verifRoot, "go.mod"))
		if err != nil {
			inconclusive(id, "go.mod: %v", err)
			return 2
		}
		modfile := filepath.Join(scratch, "go.mod")
		os.WriteFile(modfile, []byte(strings.Replace(string(mod), "=> /repo", "=> "+repoRoot, 1)), 0o644)
		sum, _ := os.ReadFile(filepath.Join(verifRoot, "go.sum"))
		os.WriteFile(filepath.Join(scratch, "go.sum"), sum, 0o644)
		buildArgs = append(buildArgs, "-modfile="+modfile)
	}
	cmd := exec.Command(goBin, append(buildArgs, cfg.Harness)...)
	cmd.Dir = verifRoot
	cmd.Env = goEnv()
	if outb, err := cmd.CombinedOutput(); err != nil {
		inconclusive(id, "build failed: %v\n%s", err, outb)
		return 2
	}
	buildS := time.Since(start).Seconds()
	if *buildOnly != "" {
		data, _ := os.ReadFile(bin)
		os.WriteFile(*buildOnly, data, 0o755)
		fmt.Println("built", *buildOnly)
		return 0
	}

	tc := cfg.Quick
	if *tier == "thorough" {
		tc = cfg.Thorough
	}
	if *workers > 0 {
		tc.Workers = *workers
	}
	if *budget > 0 {
		tc.BudgetS = *budget
	}
	if *replay != "" {
		tc.Workers = 1
	}
	replayDir := filepath.Join(verifRoot, "replays", id)

	cpuFlag := 1
	var wdSeq atomic.Int64
	runWorker := func(w int, extraEnv ...string) (*simcheck.Result, string) {
		out := filepath.Join(scratch, fmt.Sprintf("result-%d-%d.json", w, time.Now().UnixNano()))
		wd := filepath.Join(scratch, fmt.Sprintf("work-%d-%d", w, wdSeq.Add(1)))
		os.MkdirAll(wd, 0o755)
		timeout := time.Duration(tc.BudgetS*float64(time.Second)) + 600*time.Second
		for _, e := range extraEnv {
			if strings.HasPrefix(e, "VERIF_REPLAY=") {
				// a replay may have to re-run the worker session that led to the violation (thorough: ten minutes)
				timeout = 25 * time.Minute
			}
		}
		args := fmt.Sprintf("ulimit -v 25165824; exec %q -test.run '^TestSim$' -test.cpu %d -test.count 1 -test.timeout %ds", bin, cpuOf(extraEnv, cpuFlag), int(timeout.Seconds()))
		c := exec.Command("sh", "-c", args)
		c.Dir = wd
		c.Env = append(os.Environ(),
			"VERIF_SEED="+strconv.FormatUint(seed, 10),
			"VERIF_WORKER="+strconv.Itoa(w),
			"VERIF_TIER="+*tier,
			"VERIF_BUDGET_MS="+strconv.Itoa(int(tc.BudgetS*1000)),
			"VERIF_OUT="+out,
			"VERIF_WORKDIR="+wd,
			"VERIF_REPLAY_DIR="+replayDir,
			"VERIF_MAXRUNS="+strconv.FormatInt(*maxRuns, 10),
			"VERIF_STOPFILE="+filepath.Join(scratch, "stop"),
		)
		c.Env = append(c.Env, extraEnv...)
		ob, err := c.CombinedOutput()
		data, rerr := os.ReadFile(out)
		if rerr != nil {
			return nil, fmt.Sprintf("worker %d produced no result (%v): %s", w, err, tail(string(ob), 3000))
		}
		var r simcheck.Result
		if jerr := json.Unmarshal(data, &r); jerr != nil {
			return nil, fmt.Sprintf("worker %d result unreadable: %v", w, jerr)
		}
		if err != nil {
			return &r, fmt.Sprintf("worker %d exited with %v: %s", w, err, tail(string(ob), 3000))
		}
		return &r, ""
	}

	if *selftest > 0 {
		*maxRuns = *selftest
		type job struct{ w, cpu, rep int }
		var jobs []job
		for w := 0; w < tc.Workers; w++ {
			for _, cpu := range []int{1, 4, 16} {
				for rep := 0; rep < 2; rep++ {
					jobs = append(jobs, job{w, cpu, rep})
				}
			}
		}
		logs := make([]string, len(jobs))
		sem := make(chan struct{}, 8)
		var wg sync.WaitGroup
		for i, j := range jobs {
			wg.Add(1)
			go func(i int, j job) {
				defer wg.Done()
				sem <- struct{}{}
				defer func() { <-sem }()
				lp := filepath.Join(scratch, fmt.Sprintf("tracelog-%d-%d-%d", j.w, j.cpu, j.rep))
				runWorkerCPU(j.w, j.cpu, runWorker, "VERIF_TRACELOG="+lp, "VERIF_STOPFILE=")
				data, _ := os.ReadFile(lp)
				logs[i] = string(data)
			}(i, j)
		}
		wg.Wait()
		bad := 0
		total := 0
		for w := 0; w < tc.Workers; w++ {
			ref := ""
			for i, j := range jobs {
				if j.w != w {
					continue
				}
				if ref == "" {
					ref = logs[i]
					total += strings.Count(ref, "\n")
					if ref == "" {
						bad++
						fmt.Printf("selftest: worker %d produced no trace log\n", w)
					}
					continue
				}
				if logs[i] != ref {
					bad++
					a, b := strings.Split(ref, "\n"), strings.Split(logs[i], "\n")
					for k := 0; k < len(a) && k < len(b); k++ {
						if a[k] != b[k] {
							fmt.Printf("selftest: worker %d cpu=%d rep=%d diverges at plan %d: %q vs %q\n", w, j.cpu, j.rep, k, a[k], b[k])
							break
						}
					}
				}
			}
		}
		fmt.Printf("selftest property=%s plans_per_config=%d configs=%d diverging=%d\n", id, total, len(jobs), bad)
		if bad > 0 {
			inconclusive(id, "determinism self-test failed")
			return 2
		}
		return 0
	}

	if *replay != "" {
		abs, _ := filepath.Abs(*replay)
		r, problem := runWorker(0, "VERIF_REPLAY="+abs)
		if problem != "" || r == nil || len(r.Inconclusive) > 0 || r.Replay == nil {
			inc := problem
			if r != nil {
				inc += strings.Join(r.Inconclusive, "; ")
			}
			inconclusive(id, "replay: %s", inc)
			return 2
		}
		if r.Replay.Class != "" {
			how := "the plan alone, in a fresh process"
			if r.Replay.ViaSession {
				how = "re-running the recorded worker session in a fresh process (the plan alone does not fail: the violation depends on state the code under test keeps across runs of one process)"
			}
			fmt.Printf("replay: violation class=%s same_class=%v same_trace=%v, reproduced by %s\n  %s\n", r.Replay.Class, r.Replay.Reproduced, r.Replay.SameTrace, how, r.Replay.Detail)
			fmt.Printf("VIOLATION property=%s replay=%s\n", id, abs)
			return 1
		}
		fmt.Printf("replay: no violation on the current tree\n")
		return 0
	}

	// known findings
	var known, fixed []knownEntry
	if data, err := os.ReadFile(filepath.Join(verifRoot, "known_findings.json")); err == nil {
		var all []knownEntry
		if err := json.Unmarshal(data, &all); err != nil {
			inconclusive(id, "known_findings.json: %v", err)
			return 2
		}
		for _, k := range all {
			if k.Property == id && k.Status == "known" {
				known = append(known, k)
			}
			if k.Property == id && k.Status == "fixed" {
				fixed = append(fixed, k)
			}
		}
	}

	results := make([]*simcheck.Result, tc.Workers)
	problems := make([]string, tc.Workers)
	var wg sync.WaitGroup
	for w := 0; w < tc.Workers; w++ {
		wg.Add(1)
		go func(w int) {
			defer wg.Done()
			results[w], problems[w] = runWorker(w)
		}(w)
	}
	wg.Wait()

	// known findings are confirmed by replaying their committed plan
	knownStill := map[string]bool{}
	for _, k := range known {
		if k.Replay == "" {
			continue
		}
		r, problem := runWorker(1000, "VERIF_REPLAY="+filepath.Join(verifRoot, k.Replay))
		if problem != "" || r == nil || r.Replay == nil {
			inconclusive(id, "known finding %s could not be replayed: %s", k.Key, problem)
			return 2
		}
		if r.Replay.Class != "" && r.Replay.Known == k.Key {
			knownStill[k.Key] = true
		}
	}

	// repaired defects stay repaired: their committed plans are replayed and a
	// recurrence is reported like any other violation (a fixed entry suppresses nothing)
	var regress []simcheck.ViolationRecord
	for _, k := range fixed {
		if k.Replay == "" {
			continue
		}
		rp := filepath.Join(verifRoot, k.Replay)
		r, problem := runWorker(2000, "VERIF_REPLAY="+rp)
		if problem != "" || r == nil || r.Replay == nil {
			inconclusive(id, "regression plan of fixed finding %s could not be replayed: %s", k.Key, problem)
			return 2
		}
		if r.Replay.Class != "" {
			regress = append(regress, simcheck.ViolationRecord{Class: r.Replay.Class, Detail: "fixed finding " + k.Key + " is back: " + r.Replay.Detail, Replay: rp})
		}
	}

	// merge
	hashes := map[uint64]struct{}{}
	counters := map[string]int64{}
	knownHits := map[string]int64{}
	var evals, nontrivial, steps int64
	var simS float64
	var samples []json.RawMessage
	var viol []simcheck.ViolationRecord
	var incs []string
	var wseeds []uint64
	var level, rule string
	var components map[string]string
	var assumptions []string
	for w, r := range results {
		if problems[w] != "" {
			incs = append(incs, problems[w])
		}
		if r == nil {
			continue
		}
		level, rule, components, assumptions = r.Level, r.Rule, r.Components, r.Assumptions
		evals += r.Evaluations
		nontrivial += r.Nontrivial
		steps += r.Steps
		simS += r.SimTimeS
		wseeds = append(wseeds, r.WorkerSeed)
		for k, v := range r.Counters {
			counters[k] += v
		}
		for k, v := range r.KnownHits {
			knownHits[k] += v
		}
		if len(samples) < 4 {
			for _, s := range r.Samples {
				if len(samples) < 4 {
					samples = append(samples, s)
				}
			}
		}
		viol = append(viol, r.Violations...)
		incs = append(incs, r.Inconclusive...)
		if r.HashFile != "" {
			if data, err := os.ReadFile(r.HashFile); err == nil {
				for i := 0; i+8 <= len(data); i += 8 {
					hashes[binary.LittleEndian.Uint64(data[i:])] = struct{}{}
				}
			}
		}
		if *resultDir != "" {
			os.MkdirAll(*resultDir, 0o755)
			data, _ := json.MarshalIndent(r, "", " ")
			os.WriteFile(filepath.Join(*resultDir, fmt.Sprintf("worker-%d.json", w)), data, 0o644)
		}
	}
	viol = append(viol, regress...)
	wall := time.Since(start).Seconds()
	searchS := wall - buildS
	if searchS <= 0 {
		searchS = 1e-9
	}

	for _, k := range known {
		if knownStill[k.Key] || knownHits[k.Key] > 0 {
			fmt.Printf("KNOWN-FINDING: property=%s %s (key %s; met %d times in this search)\n", id, k.What, k.Key, knownHits[k.Key])
		}
	}
	// the first replay file is verified in a fresh process before anything is reported: alone,
	// or else through the worker session recorded in it
	if len(viol) > 0 && os.Getenv("VERIF_NO_REPLAY_CHECK") == "" {
		r, problem := runWorker(0, "VERIF_REPLAY="+viol[0].Replay)
		switch {
		case problem != "" || r == nil || r.Replay == nil:
			incs = append(incs, fmt.Sprintf("replay of %s in a fresh process failed to run: %s", viol[0].Replay, problem))
		case !r.Replay.Reproduced:
			incs = append(incs, fmt.Sprintf("NONDETERMINISM: %s does not reproduce class %s in a fresh process, neither alone nor through its recorded session (got %q)", viol[0].Replay, viol[0].Class, r.Replay.Class))
		case r.Replay.ViaSession:
			fmt.Printf("replay verified in a fresh process by re-running the recorded worker session (the plan alone does not fail there: state carried across runs of one process is involved)\n")
		default:
			fmt.Printf("replay verified in a fresh process (same trace: %v)\n", r.Replay.SameTrace)
		}
	}
	for _, v := range viol {
		fmt.Printf("violation class=%s\n  %s\n", v.Class, v.Detail)
		fmt.Printf("VIOLATION property=%s replay=%s\n", id, v.Replay)
	}
	for _, s := range incs {
		inconclusive(id, "%s", s)
	}

	keysOf := func(m map[string]int64) []string {
		var ks []string
		for k := range m {
			ks = append(ks, k)
		}
		sort.Strings(ks)
		return ks
	}
	_ = keysOf
	if len(samples) == 0 {
		samples = append(samples, json.RawMessage(`"no plan was executed"`))
	}
	ev := map[string]any{
		"property_id": id,
		"tier":        *tier,
		"seed":        int64(seed & (1<<63 - 1)),
		"level":       level,
		"coverage": map[string]any{
			"evaluations":             evals,
			"distinct_nontrivial":     len(hashes),
			"nontrivial_evaluations":  nontrivial,
			"rule":                    rule,
			"samples":                 samples,
			"workers":                 tc.Workers,
			"worker_seeds":            wseeds,
			"scheduler_decisions":     steps,
			"simulated_time_s":        simS,
			"runs_per_hour":           float64(evals) / searchS * 3600,
			"seeds_per_hour":          float64(tc.Workers) / searchS * 3600,
			"counters":                counters,
			"known_finding_hits":      knownHits,
			"components":              components,
			"rewritten_selectors":     st.Rewritten,
			"unintercepted_selectors": st.Kept,
			"rewritten_go_statements": st.GoStmts,
			"inconclusive":            incs,
			"build_s":                 buildS,
			"exhaustive":              false,
		},
		"assumptions": assumptions,
		"wall_s":      wall,
		"violations":  len(viol),
	}
	if level == "" {
		ev["level"] = "exploration"
	}
	data, _ := json.MarshalIndent(ev, "", " ")
	os.MkdirAll(filepath.Join(verifRoot, "evidence"), 0o755)
	if err := os.WriteFile(filepath.Join(verifRoot, "evidence", id+".json"), data, 0o644); err != nil {
		inconclusive(id, "evidence: %v", err)
		return 2
	}
	fmt.Printf("summary property=%s tier=%s plans=%d distinct_nontrivial=%d decisions=%d sim_time=%.1fs wall=%.1fs (build %.1fs) violations=%d inconclusive=%d\n",
		id, *tier, evals, len(hashes), steps, simS, wall, buildS, len(viol), len(incs))
	if len(viol) > 0 {
		return 1
	}
	if len(incs) > 0 {
		return 2
	}
	return 0
}

func cpuOf(env []string, def int) int {
	for _, e := range env {
		if strings.HasPrefix(e, "VERIF_CPU=") {
			n, _ := strconv.Atoi(strings.TrimPrefix(e, "VERIF_CPU="))
			if n > 0 {
				return n
			}
		}
	}
	return def
}

func runWorkerCPU(w, cpu int, run func(int, ...string) (*simcheck.Result, string), env ...string) (*simcheck.Result, string) {
	return run(w, append(env, "VERIF_CPU="+strconv.Itoa(cpu))...)
}

func tail(s string, n int) string {
	if len(s) > n {
		return "..." + s[len(s)-n:]
	}
	return s
}
